(* Props/C08Code.v -- property C08 (and C07, C17, C06 where they read the dumper): the dumper as
   TRANSLATED from the method bodies of dumpers.py / data.py on this run (gen/GenCode9.v) against
   the hand-written model.  Statements only; proofs in Proofs/GenCode9Ok.v; notes/GENCODE9_REPORT.md. *)
From Coq Require Import ZArith QArith String List.
From Iso Require Import Spec.Cal Spec.Instant Model.Num Model.TimePoint Model.Forms Model.Dump Model.DriverText
  Model.Strftime gen.Grammar gen.GenCode4 gen.GenCode9 Proofs.GenCode4Base Proofs.GenCode4Stmt Proofs.GenCode4Stmt2
  Proofs.StrftimeSpec Proofs.GenCode9Ok Proofs.GenCode9Expr.
Import ListNotations.
Local Open Scope string_scope.
Local Open Scope Z_scope.

Theorem C08_code_translator_ok : translator_ok_code9 = true.
Proof. exact gen_code9_accepted. Qed.
Print Assumptions C08_code_translator_ok.

(* ---- (1) the TimePoint properties the templates read: every non-truncated state, any operations *)
Theorem C08_code_year_sign : forall ops fl p,
  py_TimePoint_year_sign ops (rep fl p) = Ok (if 0 <=? date_year (tdate p) then "+" else "-").
Proof. exact gen9_year_sign. Qed.
Print Assumptions C08_code_year_sign.

Theorem C08_code_century : forall ops fl p,
  py_TimePoint_century ops (rep fl p) = Ok ((Z.abs (date_year (tdate p)) mod 10000) / 100).
Proof. exact gen9_century. Qed.
Print Assumptions C08_code_century.

Theorem C08_code_year_of_century : forall ops fl p,
  py_TimePoint_year_of_century ops (rep fl p) = Ok (Z.abs (date_year (tdate p)) mod 100).
Proof. exact gen9_year_of_century. Qed.
Print Assumptions C08_code_year_of_century.

Theorem C08_code_year_of_decade : forall ops fl p,
  py_TimePoint_year_of_decade ops (rep fl p) = Ok (Z.abs (date_year (tdate p)) mod 10).
Proof. exact gen9_year_of_decade. Qed.
Print Assumptions C08_code_year_of_decade.

(* abs(year / 10000) is a float; "%(expanded_year_digits)0Nd" prints its truncation *)
Theorem C08_code_expanded_year_digits : forall ops fl p,
  exists q, py_TimePoint_expanded_year_digits ops (rep fl p) = Ok q /\
            qtrunc q = Z.abs (date_year (tdate p)) / 10000.
Proof. exact gen9_expanded_year_digits. Qed.
Print Assumptions C08_code_expanded_year_digits.

Theorem C08_code_time_zone_sign : forall ops fl p,
  py_TimePoint_time_zone_sign ops (rep fl p) =
  Ok (if (zh (tzone p) <? 0) || (zm (tzone p) <? 0) then "-" else "+").
Proof. exact gen9_time_zone_sign. Qed.
Print Assumptions C08_code_time_zone_sign.

Theorem C08_code_time_zone_hour_abs : forall ops fl p,
  py_TimePoint_time_zone_hour_abs ops (rep fl p) = Ok (Z.abs (zh (tzone p))).
Proof. exact gen9_time_zone_hour_abs. Qed.
Print Assumptions C08_code_time_zone_hour_abs.

Theorem C08_code_time_zone_minute_abs : forall ops fl p,
  py_TimePoint_time_zone_minute_abs ops (rep fl p) = Ok (Z.abs (zm (tzone p))).
Proof. exact gen9_time_zone_minute_abs. Qed.
Print Assumptions C08_code_time_zone_minute_abs.

(* _decimal_string through the three properties = the model's decimal_string (0.9999995 threshold,
   "%0.6f", split, rstrip, "0"); get_hour_minute_second is phase 4's translated method *)
Theorem C08_code_hour_of_day_decimal_string : forall md fuel fl p, tod_nonneg (ttod p) ->
  py_TimePoint_hour_of_day_decimal_string (mops md fuel) (rep fl p) = Ok (decimal_string (tod_hour (ttod p))).
Proof. exact gen9_hour_decimal. Qed.
Print Assumptions C08_code_hour_of_day_decimal_string.

Theorem C08_code_minute_of_hour_decimal_string : forall md fuel fl p, tod_nonneg (ttod p) ->
  py_TimePoint_minute_of_hour_decimal_string (mops md fuel) (rep fl p) = Ok (decimal_string (tod_minute (ttod p))).
Proof. exact gen9_minute_decimal. Qed.
Print Assumptions C08_code_minute_of_hour_decimal_string.

Theorem C08_code_second_of_minute_decimal_string : forall md fuel fl p, tod_nonneg (ttod p) ->
  py_TimePoint_second_of_minute_decimal_string (mops md fuel) (rep fl p) = Ok (decimal_string (tod_second (ttod p))).
Proof. exact gen9_second_decimal. Qed.
Print Assumptions C08_code_second_of_minute_decimal_string.

(* ---- _get_dump_format = Model/Dump.v get_dump_format (OverflowError for a negative year without expanded digits) *)
Theorem C08_code_get_dump_format : forall ops fl p, 0 <= f_digits fl ->
  py_TimePoint__get_dump_format ops (rep fl p) = dres_exc (get_dump_format (f_digits fl) p).
Proof. exact gen9_get_dump_format. Qed.
Print Assumptions C08_code_get_dump_format.

(* ---- __str__ without a custom dump format: dump(self, self._get_dump_format()) with the dumper of the
   point's own number of expanded year digits (cut at the call of TimePointDumper.dump) *)
Theorem C08_code_str_cut : forall ops fl p, truthy_os (GenCode4Base.f_dump fl) = false ->
  py_TimePoint___str__ ops (rep fl p) =
  (fmt <- py_TimePoint__get_dump_format ops (rep fl p) ;; py_Dumper_dump ops (mkDumper (f_digits fl)) (rep fl p) fmt).
Proof. exact gen9_str_cut. Qed.
Print Assumptions C08_code_str_cut.

(* ---- (2) _dump_expression_with_properties, cut: no custom time zone, a property list that asks for no
   date conversion, every property readable: the year bounds check is the model's (dump_with: `bad`),
   then the template is rendered from the property map *)
Theorem C08_code_dump_expression_with_properties_cut : forall md fuel fl p ned tmpl props gv,
  0 <= ned -> no_conversion props p = true ->
  (forall name, In name props -> py_TimePoint_getattr (mops md fuel) (rep fl p) name = Ok (gv name)) ->
  py_Dumper__dump_expression_with_properties (mops md fuel) (mkDumper ned) (rep fl p) tmpl props None =
  if year_bad ned (date_year (tdate p)) props then Raise TimePointDumperBoundsError
  else py_render tmpl (add_props gv props []).
Proof. exact gen9_dump_expression_cut. Qed.
Print Assumptions C08_code_dump_expression_with_properties_cut.


(* ---- (2') _dump_expression_with_properties, every branch: the first stage is the model's (dump_with: p1 --
   to_week_date / to_calendar_date, ValueError when the date does not exist), a custom zone outside the bounds of
   TimeZone.__init__ is BadInputError, (0, 0) goes through to_utc and any other zone through
   to_time_zone(TimeZone(h, m)) (phase 4's methods: the state is the model's point up to Qeq), and on that state
   the property loop is the model's year bounds check followed by `expression % property_map` *)
Theorem C08_code_dump_expression_with_properties : forall md fuel fl p ned tmpl props cz, 0 <= ned ->
  let code := py_Dumper__dump_expression_with_properties (mops md fuel) (mkDumper ned) (rep fl p) tmpl props cz in
  match conv9 md props p with
  | None => code = Raise ValueError
  | Some q =>
    if match cz with Some (h, m) => negb (valid_zone (mkZone h m)) | None => false end
    then code = Raise BadInputError
    else match zone9 md q cz with
         | None => True
         | Some r => month_ok q -> zone_fuel md q cz fuel ->
                     exists r', tp_equiv r' r /\ loop_result md fuel fl ned tmpl props r' code
         end
  end.
Proof. exact gen9_dump_expression. Qed.
Print Assumptions C08_code_dump_expression_with_properties.

(* ---- (3) _get_expression_and_properties = Model/Dump.v expression_of: the split at "T", the "Z" / "+hh" /
   literal "+.." / "-.." zone cases (a second sign: ValueError <-> DErr), get_time_zone, the three translated parts
   put together; where the model has no table entry (DUnmodelled) nothing is claimed *)
Theorem C08_code_get_expression_and_properties : forall md fuel ned fmt,
  expr_rel (py_Dumper__get_expression_and_properties (mops md fuel) (mkDumper ned) fmt)
           (expression_of (date_forms_of ned) TIME_FORMS ZONE_FORMS zone_of_text fmt).
Proof. exact gen9_get_expression. Qed.
Print Assumptions C08_code_get_expression_and_properties.

(* ---- (4) TimePointDumper.strftime: the format is split and translated as Model/Strftime.v does
   (build_d over split_format: an unknown directive is StrftimeSyntaxError), a week date is converted to a
   calendar date, 24:00 is normalised (phase 4's methods), and the result is _dump_expression_with_properties
   of THAT point with the model's template and property list (StrftimeSpec.strftime_unfold is the same
   composition on the model side) *)
Theorem C08_code_strftime_split : forall fmt, to_fitems (py_strftime_split fmt) = split_format fmt "".
Proof. exact strftime_split_model. Qed.
Print Assumptions C08_code_strftime_split.

Theorem C08_code_strftime : forall md fuel fl p ned fmt,
  match build_d STRFTIME_TABLE (split_format fmt "") with
  | None => py_Dumper_strftime (mops md fuel) (mkDumper ned) (rep fl p) fmt = Raise StrftimeSyntaxError
  | Some (tmpl, props) =>
    match strftime_conv md p with
    | None => py_Dumper_strftime (mops md fuel) (mkDumper ned) (rep fl p) fmt = Raise ValueError
    | Some q =>
      month_ok q ->
      (Z.to_nat (if qeqb (tod_hour (ttod q)) 24 then tick_bound md q else 0) <= fuel)%nat ->
      exists q', tp_equiv q' (normalised md q) /\
        py_Dumper_strftime (mops md fuel) (mkDumper ned) (rep fl p) fmt =
        py_Dumper__dump_expression_with_properties (mops md fuel) (mkDumper ned) (rep fl q') tmpl props None
    end
  end.
Proof. exact gen9_strftime. Qed.
Print Assumptions C08_code_strftime.

(* ---- the generated code run on concrete points (closed vm_compute); every expected value was produced by
   the real package (/venv/bin/python, PYTHONPATH=/repo; notes/GENCODE9_REPORT.md section 6) *)
Example C08_code_ex : ex_results =
  ["2000-01-01T12:30:05,5Z"; "2009-W53-5T24:00:00+05:30"; "-001234-060T12,5-03:00"; "!overflow";
   "10000-02-28T23:59:59,999999Z"; "+010000-02-28T23:59:59,999999Z"; "5"; "0"; "5"; "999999"; "-"; "946729805";
   "+0002009-Www-DThh:mm:ss+hh:mm"; "2000-01-01T13:30+01:00"; "2000001T090005-0330"; "2010-01-01T18:30Z";
   "1999-W52-6T12:30:05,5+00:00"; "-001234-03-01T12,5"; "2000-01-01 12:30:05 001"; "2010-01-02 00:00:00";
   "!bounds"; "946729805|+0000"; "2000-01-05T15:30+99:00"].
Proof. vm_compute. reflexivity. Qed.
