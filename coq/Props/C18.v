(* Props/C18.v -- property C18: Unix time and the system's local UTC offset
   are converted exactly.  Statements only. *)
From Coq Require Import String QArith.
From Iso Require Import Proofs.Tac Spec.Cal Spec.Instant Spec.ZoneText Model.Num Model.Duration
  Model.TimePoint Model.LocalZone Proofs.LocalZoneSpec gen.GenCode Proofs.GenCodeOk.
Open Scope Z_scope.

(* the body of timezone.get_local_time_zone, TRANSLATED from the source on this run
   (time.timezone, time.altzone, time.daylight, tm_isdst as parameters), is the
   model function the theorems below are about *)
Theorem C18_code : gen.GenCode.translator_ok_code = true /\
  (forall tz alt dl isdst, gen.GenCode.py_get_local_time_zone tz alt dl isdst = get_local_time_zone tz alt dl isdst).
Proof. exact (conj Proofs.GenCodeOk.gen_code_accepted Proofs.GenCodeOk.gen_get_local_time_zone_eq). Qed.
Print Assumptions C18_code.

(* every whole-minute offset o (in minutes, no bound): the pair is exact and
   both parts carry the offset's sign *)
Theorem C18_split : forall o,
  let '(h, m) := split_offset (60 * o) in
  60 * h + m = o /\ -59 <= m <= 59 /\
  (0 <= o -> 0 <= h /\ 0 <= m) /\ (o < 0 -> h <= 0 /\ m <= 0).
Proof. exact split_offset_spec. Qed.
Print Assumptions C18_split.

(* which of the two system offsets is used *)
Theorem C18_select : forall tz alt dl isdst,
  utc_offset_seconds tz alt dl isdst = if (isdst =? 1) && negb (dl =? 0) then - alt else - tz.
Proof. exact utc_offset_select. Qed.
Print Assumptions C18_select.

(* the basic, extended and reduced texts denote that same pair *)
Theorem C18_format : forall mode h m,
  -99 <= h <= 99 -> -59 <= m <= 59 -> sign_ok h m = true ->
  read_offset (format_offset mode (h, m)) = Some (h, m).
Proof. exact format_offset_spec. Qed.
Print Assumptions C18_format.

Theorem C18_format_zero : forall mode, format_offset mode (0, 0) = "Z"%string.
Proof. exact format_offset_zero. Qed.
Print Assumptions C18_format_zero.

Theorem C18_format_reduced : forall h m, m <> 0 ->
  format_offset TzReduced (h, m) = format_offset TzNormal (h, m).
Proof. exact format_reduced_falls_back. Qed.
Print Assumptions C18_format_reduced.

Example C18_ex :
  get_local_time_zone 12600 9000 1 1 = (-2, -30) /\ get_local_time_zone (-20700) (-20700) 0 0 = (5, 45) /\
  get_local_time_zone 1800 1800 0 0 = (0, -30) /\
  get_local_time_zone_format TzExtended 1800 1800 0 0 = "-00:30"%string /\
  get_local_time_zone_format TzReduced (-3600) (-7200) 1 1 = "+02"%string.
Proof. vm_compute. repeat split; reflexivity. Qed.

(* --- Unix epoch (appended once Proofs/EpochSpec.v was proved) --- *)
From Iso Require Import Proofs.EpochSpec.

(* the TimePoint built from n seconds denotes 1970-01-01T00:00:00Z + n, in UTC
   or in the requested local zone *)
Theorem C18_from_epoch : forall md n local,
  (match local with Some (h, m) => valid_zone (mkZone h m) = true | None => True end) ->
  exists r, from_unix md n local = Some r /\
            (instant md r == instant md unix_ref + n)%Q /\
            tzone r = (match local with Some (h, m) => mkZone h m | None => mkZone 0 0 end) /\
            valid_tp md r = true.
Proof. exact from_unix_spec. Qed.
Print Assumptions C18_from_epoch.

(* seconds_since_unix_epoch is the whole number of seconds from the epoch to the
   instant: its floor, before and after the epoch (fix: commit ecba00f); exact when integral *)
Theorem C18_to_epoch : forall md p, valid_tp md p = true ->
  exists k, seconds_since_unix_epoch md p = Some k /\
    k = Qfloor (instant md p - instant md unix_ref) /\
    (qis_int (instant md p - instant md unix_ref) = true ->
       (inject_Z k == instant md p - instant md unix_ref)%Q).
Proof. exact seconds_since_unix_epoch_spec. Qed.
Print Assumptions C18_to_epoch.

Example C18_epoch_ex :
  from_unix G 1000000000 None = Some (mkTp (Cal 2001 9 9) (HMS 1 46 40) (mkZone 0 0)) /\
  seconds_since_unix_epoch G (mkTp (Wk 1969 52 7) (HMS 23 59 59) (mkZone 5 30)) = Some (-279001).
Proof. vm_compute. repeat split; reflexivity. Qed.
