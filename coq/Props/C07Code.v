(* Props/C07Code.v -- property C07, code side: the method bodies of class
   TimePointParser (parsers.py), re-translated from the Python source into
   gen/GenCode8.v on every run, equal the hand-written parser model of
   Model/Parse.v.  Statements only; proofs in Proofs/GenCode8Ok.v; what is and
   is not covered: notes/GENCODE8_REPORT.md.

   Vocabulary: `mops md cfg` instantiates the two operations that are not
   translated (timezone.get_local_time_zone() = c_local cfg; the TimePoint
   constructor = the model's construct, which phase 7 proves equal to the real
   one); `self_of cfg dfs tfs zfs dfmt` is the parser object: configuration
   attributes from cfg, the three regex maps built from the generated form
   tables (a compiled pattern is its token list, regex.match is pmatch). *)
From Coq Require Import ZArith QArith List Bool String Ascii.
From Iso Require Import Spec.Cal Model.Num Model.Helpers Model.Duration Model.TimePoint Model.Forms
  Model.Parse Spec.FormText Proofs.MatchSpec gen.Grammar Model.DriverText gen.GenCode8 Proofs.GenCode8Ok.
Import ListNotations.
Local Open Scope string_scope.
Local Open Scope list_scope.

(* every entry point was inside the translated subset on this run *)
Theorem C07_code_translator_ok : translator_ok_code8 = true.
Proof. exact gen_code8_accepted. Qed.
Print Assumptions C07_code_translator_ok.

(* process_time_zone_info = process_zone, on the binding lists the zone
   regexes produce ({} / utc / sign hour / sign hour minute): the returned
   dictionary is the canonical dictionary of the model's zinfo, a ValueError
   where the model has EValue *)
Theorem C07_code_process_time_zone_info : forall md cfg dfs tfs zfs dfmt e, zone_env_ok e ->
  zone_rel (py_process_time_zone_info (mops md cfg) (self_of cfg dfs tfs zfs dfmt) (VDict (zenv e)))
           (process_zone cfg e).
Proof. exact gen8_process. Qed.
Print Assumptions C07_code_process_time_zone_info.

Theorem C07_code_process_time_zone_info_default : forall md cfg dfs tfs zfs dfmt,
  py_process_time_zone_info (mops md cfg) (self_of cfg dfs tfs zfs dfmt) VNone =
  py_process_time_zone_info (mops md cfg) (self_of cfg dfs tfs zfs dfmt) (VDict []).
Proof. exact gen8_process_none. Qed.
Print Assumptions C07_code_process_time_zone_info_default.

(* get_time_zone_info = get_zone_info: the (expression, groupdict) of the first
   matching form in the model's search order, ISO8601SyntaxError when none *)
Theorem C07_code_get_time_zone_info : forall md cfg dfs tfs zfs dfmt s bf, bf_used bf ->
  py_get_time_zone_info (mops md cfg) (self_of cfg dfs tfs zfs dfmt) (VStr s) (strs bf) =
  found_val mk_time (get_zone_info zfs cfg s bf).
Proof. exact gen8_get_time_zone_info. Qed.
Print Assumptions C07_code_get_time_zone_info.

(* get_time_info = the model's get_time_info *)
Theorem C07_code_get_time_info : forall md cfg dfs tfs zfs dfmt s bf bt, types_ok tfs -> bf_used bf -> bt_used bt ->
  py_get_time_info (mops md cfg) (self_of cfg dfs tfs zfs dfmt) (VStr s) (strs bf) (strs bt) =
  found_val mk_time (get_time_info tfs cfg s bf bt).
Proof. exact gen8_get_time_info. Qed.
Print Assumptions C07_code_get_time_info.

(* get_date_info = the model's get_date_info (bad_types None or ["reduced"]) *)
Theorem C07_code_get_date_info : forall md cfg dfs tfs zfs dfmt s (reduced_bad : bool), types_ok dfs ->
  py_get_date_info (mops md cfg) (self_of cfg dfs tfs zfs dfmt) (VStr s)
                   (if reduced_bad then strs ["reduced"] else VNone) =
  match get_date_info dfs cfg s (if reduced_bad then ["reduced"] else []) with
  | Some (f, e) => Ok (mk_date (f_format f) (f_type f) (f_expr f) e)
  | None => Raise ISO8601SyntaxError end.
Proof. exact gen8_get_date_info. Qed.
Print Assumptions C07_code_get_date_info.

(* _create_timepoint_from_info, cut at its two top-level loops (the translator
   makes the code from each loop on a definition of its own: ..__L1, ..__L2).

   Segment L1 = the loop `date_info[key] = int(value)` + info.update(date_info):
   on any dictionary without repeated keys it maps int() over the values (a
   value int() refuses stays) and enters L2 with that dictionary as `info`. *)
Theorem C07_code_create_L1 : forall ops self D' fmtv dur yp TI tfv TP, NoDup (keys D') ->
  py__create_timepoint_from_info__L1 ops self (VDict D') fmtv (VDict []) dur yp TI tfv TP =
  py__create_timepoint_from_info__L2 ops self (VDict (mapv (fun _ => iconv) D')) fmtv
    (VDict (dict_update [] (mapv (fun _ => iconv) D'))) dur yp TI tfv TP.
Proof. exact gen8_L1. Qed.
Print Assumptions C07_code_create_L1.

(* Segment L2 = the float() loop over time_info (with the "0." prefix of the
   decimal groups and the Z -> (0, 0) rule), info.update(time_info), the
   truncated flag, truncated_property, the dump formats (argument, then the
   parser's own), and the TimePoint( **info, is_duration=..) call.  For every
   `info` holding the date arguments as ints, every time binding list te whose
   numeric groups are digit strings and every zone zinfo z of the model:
   the outcome is the model's constructor call on the numbers nq / ndec of
   MatchSpec.point_num, zone zn_val z = zn_of z. *)
Theorem C07_code_create_L2 : forall md cfg dfs tfs zfs dfmt Dany fmt I dur yp te z tfmt tp
    (yr mo dom doy wk dow nedo : option Z) (trI : bool),
  keysP DATE_OUT I ->
  dict_get "year" I = option_map VInt yr -> dict_get "month_of_year" I = option_map VInt mo ->
  dict_get "day_of_month" I = option_map VInt dom -> dict_get "day_of_year" I = option_map VInt doy ->
  dict_get "week_of_year" I = option_map VInt wk -> dict_get "day_of_week" I = option_map VInt dow ->
  dict_get "num_expanded_year_digits" I = option_map VInt nedo ->
  truthy_opt (dict_get "truncated" I) = trI ->
  NoDup (map fst te) -> (forall k, lookup_env k te <> None -> mem k TIME_IN = true) ->
  digit_env TIME_KEYS te -> trunc_time_ok te -> zdigits z ->
  res_of (py__create_timepoint_from_info__L2 (mops md cfg) (self_of cfg dfs tfs zfs dfmt) Dany (ostr_val fmt)
            (VDict I) (VBool dur) yp (VDict (zenv te ++ zdict z)) (ostr_val tfmt) (tprop_val tp)) =
  construct md yr mo dom doy wk dow
    (nq te "hour_of_day") (ndec te "hour_of_day_decimal") (nq te "minute_of_hour") (ndec te "minute_of_hour_decimal")
    (nq te "second_of_minute") (ndec te "second_of_minute_decimal")
    (zn_val z) (trI || has_key "truncated" te) tp (od nedo) (fmt_eff fmt dfmt) dur.
Proof. exact gen8_L2. Qed.
Print Assumptions C07_code_create_L2.

Theorem C07_code_zone_args : forall z, zdigits z -> zn_of z = POk (zn_val z).
Proof. exact zn_of_digits. Qed.
Print Assumptions C07_code_zone_args.

(* L1 + L2: from the state in which the first loop is entered (date values
   still the captured digit strings, or ints) to the model's constructor call.
   CUT: the code before the first loop (py__create_timepoint_from_info proper:
   truncated_property, is_year_present, the century / year-of-century /
   expanded-year arithmetic and the sign) is translated but not yet proved to
   reach this state with m_yr / m_tprop / m_trunc1 / m_ned (GenCode8Ok.v
   section 5, notes/GENCODE8_REPORT.md section 6). *)
Theorem C07_code_create_from_first_loop_cut : forall md cfg dfs tfs zfs dfmt fmt D' dur yp te z tfmt tp
    (yr mo dom doy wk dow nedo : option Z),
  NoDup (keys D') -> keysP DATE_OUT D' ->
  ival (dict_get "year" D') = Some yr -> ival (dict_get "month_of_year" D') = Some mo ->
  ival (dict_get "day_of_month" D') = Some dom -> ival (dict_get "day_of_year" D') = Some doy ->
  ival (dict_get "week_of_year" D') = Some wk -> ival (dict_get "day_of_week" D') = Some dow ->
  ival (dict_get "num_expanded_year_digits" D') = Some nedo -> dtrunc_ok (dict_get "truncated" D') ->
  NoDup (map fst te) -> (forall k, lookup_env k te <> None -> mem k TIME_IN = true) ->
  digit_env TIME_KEYS te -> trunc_time_ok te -> zdigits z ->
  res_of (py__create_timepoint_from_info__L1 (mops md cfg) (self_of cfg dfs tfs zfs dfmt) (VDict D') (ostr_val fmt)
            (VDict []) (VBool dur) yp (VDict (zenv te ++ zdict z)) (ostr_val tfmt) (tprop_val tp)) =
  construct md yr mo dom doy wk dow
    (nq te "hour_of_day") (ndec te "hour_of_day_decimal") (nq te "minute_of_hour") (ndec te "minute_of_hour_decimal")
    (nq te "second_of_minute") (ndec te "second_of_minute_decimal")
    (zn_val z) (truthy_opt (dict_get "truncated" D') || has_key "truncated" te) tp (od nedo) (fmt_eff fmt dfmt) dur.
Proof. exact gen8_create_tail. Qed.
Print Assumptions C07_code_create_from_first_loop_cut.

(* the hypothesis types_ok holds of the tables generated on this run *)
Theorem C07_code_tables_types_ok :
  types_ok DATE_FORMS_0 /\ types_ok DATE_FORMS_2 /\ types_ok DATE_FORMS_3 /\ types_ok TIME_FORMS.
Proof. exact tables_types_ok. Qed.
Print Assumptions C07_code_tables_types_ok.

(* the translated parse / get_info / _create_timepoint_from_info, run by
   vm_compute; the right-hand sides were produced by the real package
   (tools/impl_text.py, op `parse`, /venv/bin/python with PYTHONPATH=/repo) *)
Example C07_code_ex :
  [ run_parse G (mkCfg 3 false false None false (0, 0)%Z) "+0012345-06-07T08:09:10+01:30" false;
    run_parse G (mkCfg 2 true false None true (0, 0)%Z) "-W-3T-3005,5" true;
    run_parse D360 (mkCfg 2 false false (Some (5, 30)%Z) false (0, 0)%Z) "20000230T1230.5" true;
    run_parse G (mkCfg 2 false true None false (1, -30)%Z) "2000-01-01T00" false;
    run_parse G (mkCfg 2 false false None false (0, 0)%Z) "2000-01-01T24:00:01Z" false;
    run_parse G (mkCfg 2 false false None false (0, 0)%Z) "2000T01T02" false;
    run_parse G (mkCfg 2 false false None false (0, 0)%Z) "1999-W52-7T2359-05" true;
    run_parse G (mkCfg 2 false false None false (0, 0)%Z) "2000-01-01T00+01+02" false;
    run_parse G (mkCfg 2 true false None false (0, 0)%Z) "-9912T-30" true ] =
  [ "12345 6 7 - - - 8 9 10 1 30 0 - 3 -";
    "- - - - - 3 - 30 11/2 - - 1 - 0 -W-DT-mmss,tt";
    "2000 2 30 - - - 12 61/2 - 5 30 0 - 0 CCYYMMDDThhmm.nn";
    "ERR syntax";
    "ERR badinput";
    "ERR value";
    "ERR syntax";
    "ERR value";
    "99 12 - - - - - 30 - 0 0 1 year_of_century 0 -YYMMT-mm" ].
Proof. vm_compute. reflexivity. Qed.
