(* Props/C07Code.v -- property C07, code side: the method bodies of class
   TimePointParser (parsers.py), re-translated from the Python source into
   gen/GenCode8.v on every run, equal the hand-written parser model of
   Model/Parse.v.  Statements only; proofs in Proofs/GenCode8Ok.v; what is and
   is not covered: notes/GENCODE8_REPORT.md.

   Vocabulary: `mops md cfg` instantiates the two operations that are not
   translated (timezone.get_local_time_zone() = c_local cfg; the TimePoint
   constructor = the model's construct, which phase 7 proves equal to the real
   one); `self_of cfg dfs tfs zfs dfmt` is the parser object: configuration
   attributes from cfg, the three regex maps built from the generated form
   tables (a compiled pattern is its token list, regex.match is pmatch). *)
From Coq Require Import ZArith QArith List Bool String Ascii.
From Iso Require Import Spec.Cal Model.Num Model.Helpers Model.Duration Model.TimePoint Model.Forms
  Model.Parse Spec.FormText Proofs.MatchSpec gen.Grammar Model.DriverText gen.GenCode8 Proofs.GenCode8Ok.
Import ListNotations.
Local Open Scope string_scope.

(* every entry point was inside the translated subset on this run *)
Theorem C07_code_translator_ok : translator_ok_code8 = true.
Proof. exact gen_code8_accepted. Qed.
Print Assumptions C07_code_translator_ok.

(* process_time_zone_info = process_zone, on the binding lists the zone
   regexes produce ({} / utc / sign hour / sign hour minute): the returned
   dictionary is the canonical dictionary of the model's zinfo, a ValueError
   where the model has EValue *)
Theorem C07_code_process_time_zone_info : forall md cfg dfs tfs zfs dfmt e, zone_env_ok e ->
  zone_rel (py_process_time_zone_info (mops md cfg) (self_of cfg dfs tfs zfs dfmt) (VDict (zenv e)))
           (process_zone cfg e).
Proof. exact gen8_process. Qed.
Print Assumptions C07_code_process_time_zone_info.

Theorem C07_code_process_time_zone_info_default : forall md cfg dfs tfs zfs dfmt,
  py_process_time_zone_info (mops md cfg) (self_of cfg dfs tfs zfs dfmt) VNone =
  py_process_time_zone_info (mops md cfg) (self_of cfg dfs tfs zfs dfmt) (VDict []).
Proof. exact gen8_process_none. Qed.
Print Assumptions C07_code_process_time_zone_info_default.

(* get_time_zone_info = get_zone_info: the (expression, groupdict) of the first
   matching form in the model's search order, ISO8601SyntaxError when none *)
Theorem C07_code_get_time_zone_info : forall md cfg dfs tfs zfs dfmt s bf, bf_used bf ->
  py_get_time_zone_info (mops md cfg) (self_of cfg dfs tfs zfs dfmt) (VStr s) (strs bf) =
  found_val mk_time (get_zone_info zfs cfg s bf).
Proof. exact gen8_get_time_zone_info. Qed.
Print Assumptions C07_code_get_time_zone_info.

(* get_time_info = the model's get_time_info *)
Theorem C07_code_get_time_info : forall md cfg dfs tfs zfs dfmt s bf bt, types_ok tfs -> bf_used bf -> bt_used bt ->
  py_get_time_info (mops md cfg) (self_of cfg dfs tfs zfs dfmt) (VStr s) (strs bf) (strs bt) =
  found_val mk_time (get_time_info tfs cfg s bf bt).
Proof. exact gen8_get_time_info. Qed.
Print Assumptions C07_code_get_time_info.

(* get_date_info = the model's get_date_info (bad_types None or ["reduced"]) *)
Theorem C07_code_get_date_info : forall md cfg dfs tfs zfs dfmt s (reduced_bad : bool), types_ok dfs ->
  py_get_date_info (mops md cfg) (self_of cfg dfs tfs zfs dfmt) (VStr s)
                   (if reduced_bad then strs ["reduced"] else VNone) =
  match get_date_info dfs cfg s (if reduced_bad then ["reduced"] else []) with
  | Some (f, e) => Ok (mk_date (f_format f) (f_type f) (f_expr f) e)
  | None => Raise ISO8601SyntaxError end.
Proof. exact gen8_get_date_info. Qed.
Print Assumptions C07_code_get_date_info.

(* the hypothesis types_ok holds of the tables generated on this run *)
Theorem C07_code_tables_types_ok :
  types_ok DATE_FORMS_0 /\ types_ok DATE_FORMS_2 /\ types_ok DATE_FORMS_3 /\ types_ok TIME_FORMS.
Proof. exact tables_types_ok. Qed.
Print Assumptions C07_code_tables_types_ok.

(* the translated parse / get_info / _create_timepoint_from_info, run by
   vm_compute; the right-hand sides were produced by the real package
   (tools/impl_text.py, op `parse`, /venv/bin/python with PYTHONPATH=/repo) *)
Example C07_code_ex :
  [ run_parse G (mkCfg 3 false false None false (0, 0)%Z) "+0012345-06-07T08:09:10+01:30" false;
    run_parse G (mkCfg 2 true false None true (0, 0)%Z) "-W-3T-3005,5" true;
    run_parse D360 (mkCfg 2 false false (Some (5, 30)%Z) false (0, 0)%Z) "20000230T1230.5" true;
    run_parse G (mkCfg 2 false true None false (1, -30)%Z) "2000-01-01T00" false;
    run_parse G (mkCfg 2 false false None false (0, 0)%Z) "2000-01-01T24:00:01Z" false;
    run_parse G (mkCfg 2 false false None false (0, 0)%Z) "2000T01T02" false;
    run_parse G (mkCfg 2 false false None false (0, 0)%Z) "1999-W52-7T2359-05" true;
    run_parse G (mkCfg 2 false false None false (0, 0)%Z) "2000-01-01T00+01+02" false;
    run_parse G (mkCfg 2 true false None false (0, 0)%Z) "-9912T-30" true ] =
  [ "12345 6 7 - - - 8 9 10 1 30 0 - 3 -";
    "- - - - - 3 - 30 11/2 - - 1 - 0 -W-DT-mmss,tt";
    "2000 2 30 - - - 12 61/2 - 5 30 0 - 0 CCYYMMDDThhmm.nn";
    "ERR syntax";
    "ERR badinput";
    "ERR value";
    "ERR syntax";
    "ERR value";
    "99 12 - - - - - 30 - 0 0 1 year_of_century 0 -YYMMT-mm" ].
Proof. vm_compute. reflexivity. Qed.
