(* Props/C04Code.v -- property C04 tied to the SOURCE of class TimePoint: the method
   bodies translated from /repo on this run (gen/GenCode4.v; vocabulary and conventions in
   the header of Props/C01Code.v) compute the model functions the theorems of Props/C04.v
   are about, for every fuel at least the model's own loop bounds.  Statements only. *)
From Coq Require Import QArith String.
From Iso Require Import Proofs.Tac Spec.Cal Spec.Instant Model.Num Model.Helpers Model.Duration Model.TimePoint
  gen.CalTables gen.GenCode4 Proofs.GenCode2Ok Proofs.GenCode4Base Proofs.GenCode4Stmt Proofs.GenCode4Stmt2
  Proofs.GenCode4Conv Proofs.GenCode4Cmp Proofs.GenCode4Ok.
From Iso Require gen.GenCode3 Proofs.GenCode3Ok.
Open Scope Z_scope.

Theorem C04_code_translator_ok : gen.GenCode4.translator_ok_code4 = true.
Proof. exact gen_code4_accepted. Qed.
Print Assumptions C04_code_translator_ok.
Theorem C04_code_sub_timepoint : forall md fl1 fl2 a a' b b' fuel d,
  tp_equiv a' a -> tp_equiv b' b -> valid_tp md a = true -> valid_tp md b = true ->
  (fl1 = fl2 \/ tp_props_eqb a b = false) ->
  tp_sub md a b = Some d ->
  (Z.to_nat (Z.max (cmp_bound md a b) (cmp_bound md b a)) + 2 <= fuel)%nat ->
  exists od, py_TimePoint___sub____TimePoint fuel (cal_of md) (rep fl1 a') (rep fl2 b') = Ok od /\
             dur_denotes od d.
Proof. exact gen4_sub_tp. Qed.
Print Assumptions C04_code_sub_timepoint.
