
(** val negb : bool -> bool **)

let negb = function
| true -> false
| false -> true

type nat =
| O
| S of nat

(** val option_map : ('a1 -> 'a2) -> 'a1 option -> 'a2 option **)

let option_map f = function
| Some a -> Some (f a)
| None -> None

(** val fst : ('a1 * 'a2) -> 'a1 **)

let fst = function
| (x, _) -> x

(** val snd : ('a1 * 'a2) -> 'a2 **)

let snd = function
| (_, y) -> y

(** val app : 'a1 list -> 'a1 list -> 'a1 list **)

let rec app l m =
  match l with
  | [] -> m
  | a :: l1 -> a :: (app l1 m)

type comparison =
| Eq
| Lt
| Gt

(** val compOpp : comparison -> comparison **)

let compOpp = function
| Eq -> Eq
| Lt -> Gt
| Gt -> Lt

type uint =
| Nil
| D0 of uint
| D1 of uint
| D2 of uint
| D3 of uint
| D4 of uint
| D5 of uint
| D6 of uint
| D7 of uint
| D8 of uint
| D9 of uint

type signed_int =
| Pos of uint
| Neg of uint

(** val revapp : uint -> uint -> uint **)

let rec revapp d d' =
  match d with
  | Nil -> d'
  | D0 d0 -> revapp d0 (D0 d')
  | D1 d0 -> revapp d0 (D1 d')
  | D2 d0 -> revapp d0 (D2 d')
  | D3 d0 -> revapp d0 (D3 d')
  | D4 d0 -> revapp d0 (D4 d')
  | D5 d0 -> revapp d0 (D5 d')
  | D6 d0 -> revapp d0 (D6 d')
  | D7 d0 -> revapp d0 (D7 d')
  | D8 d0 -> revapp d0 (D8 d')
  | D9 d0 -> revapp d0 (D9 d')

(** val rev : uint -> uint **)

let rev d =
  revapp d Nil

module Little =
 struct
  (** val double : uint -> uint **)

  let rec double = function
  | Nil -> Nil
  | D0 d0 -> D0 (double d0)
  | D1 d0 -> D2 (double d0)
  | D2 d0 -> D4 (double d0)
  | D3 d0 -> D6 (double d0)
  | D4 d0 -> D8 (double d0)
  | D5 d0 -> D0 (succ_double d0)
  | D6 d0 -> D2 (succ_double d0)
  | D7 d0 -> D4 (succ_double d0)
  | D8 d0 -> D6 (succ_double d0)
  | D9 d0 -> D8 (succ_double d0)

  (** val succ_double : uint -> uint **)

  and succ_double = function
  | Nil -> D1 Nil
  | D0 d0 -> D1 (double d0)
  | D1 d0 -> D3 (double d0)
  | D2 d0 -> D5 (double d0)
  | D3 d0 -> D7 (double d0)
  | D4 d0 -> D9 (double d0)
  | D5 d0 -> D1 (succ_double d0)
  | D6 d0 -> D3 (succ_double d0)
  | D7 d0 -> D5 (succ_double d0)
  | D8 d0 -> D7 (succ_double d0)
  | D9 d0 -> D9 (succ_double d0)
 end

module Coq__1 = struct
 (** val add : nat -> nat -> nat **)
 let rec add n0 m =
   match n0 with
   | O -> m
   | S p -> S (add p m)
end
include Coq__1

type positive =
| XI of positive
| XO of positive
| XH

type n =
| N0
| Npos of positive

type z =
| Z0
| Zpos of positive
| Zneg of positive

module Nat =
 struct
  (** val eqb : nat -> nat -> bool **)

  let rec eqb n0 m =
    match n0 with
    | O -> (match m with
            | O -> true
            | S _ -> false)
    | S n' -> (match m with
               | O -> false
               | S m' -> eqb n' m')

  (** val leb : nat -> nat -> bool **)

  let rec leb n0 m =
    match n0 with
    | O -> true
    | S n' -> (match m with
               | O -> false
               | S m' -> leb n' m')
 end

module Pos =
 struct
  type mask =
  | IsNul
  | IsPos of positive
  | IsNeg
 end

module Coq_Pos =
 struct
  (** val succ : positive -> positive **)

  let rec succ = function
  | XI p -> XO (succ p)
  | XO p -> XI p
  | XH -> XO XH

  (** val add : positive -> positive -> positive **)

  let rec add x y =
    match x with
    | XI p ->
      (match y with
       | XI q0 -> XO (add_carry p q0)
       | XO q0 -> XI (add p q0)
       | XH -> XO (succ p))
    | XO p ->
      (match y with
       | XI q0 -> XI (add p q0)
       | XO q0 -> XO (add p q0)
       | XH -> XI p)
    | XH -> (match y with
             | XI q0 -> XO (succ q0)
             | XO q0 -> XI q0
             | XH -> XO XH)

  (** val add_carry : positive -> positive -> positive **)

  and add_carry x y =
    match x with
    | XI p ->
      (match y with
       | XI q0 -> XI (add_carry p q0)
       | XO q0 -> XO (add_carry p q0)
       | XH -> XI (succ p))
    | XO p ->
      (match y with
       | XI q0 -> XO (add_carry p q0)
       | XO q0 -> XI (add p q0)
       | XH -> XO (succ p))
    | XH ->
      (match y with
       | XI q0 -> XI (succ q0)
       | XO q0 -> XO (succ q0)
       | XH -> XI XH)

  (** val pred_double : positive -> positive **)

  let rec pred_double = function
  | XI p -> XI (XO p)
  | XO p -> XI (pred_double p)
  | XH -> XH

  type mask = Pos.mask =
  | IsNul
  | IsPos of positive
  | IsNeg

  (** val succ_double_mask : mask -> mask **)

  let succ_double_mask = function
  | IsNul -> IsPos XH
  | IsPos p -> IsPos (XI p)
  | IsNeg -> IsNeg

  (** val double_mask : mask -> mask **)

  let double_mask = function
  | IsPos p -> IsPos (XO p)
  | x0 -> x0

  (** val double_pred_mask : positive -> mask **)

  let double_pred_mask = function
  | XI p -> IsPos (XO (XO p))
  | XO p -> IsPos (XO (pred_double p))
  | XH -> IsNul

  (** val sub_mask : positive -> positive -> mask **)

  let rec sub_mask x y =
    match x with
    | XI p ->
      (match y with
       | XI q0 -> double_mask (sub_mask p q0)
       | XO q0 -> succ_double_mask (sub_mask p q0)
       | XH -> IsPos (XO p))
    | XO p ->
      (match y with
       | XI q0 -> succ_double_mask (sub_mask_carry p q0)
       | XO q0 -> double_mask (sub_mask p q0)
       | XH -> IsPos (pred_double p))
    | XH -> (match y with
             | XH -> IsNul
             | _ -> IsNeg)

  (** val sub_mask_carry : positive -> positive -> mask **)

  and sub_mask_carry x y =
    match x with
    | XI p ->
      (match y with
       | XI q0 -> succ_double_mask (sub_mask_carry p q0)
       | XO q0 -> double_mask (sub_mask p q0)
       | XH -> IsPos (pred_double p))
    | XO p ->
      (match y with
       | XI q0 -> double_mask (sub_mask_carry p q0)
       | XO q0 -> succ_double_mask (sub_mask_carry p q0)
       | XH -> double_pred_mask p)
    | XH -> IsNeg

  (** val sub : positive -> positive -> positive **)

  let sub x y =
    match sub_mask x y with
    | IsPos z0 -> z0
    | _ -> XH

  (** val mul : positive -> positive -> positive **)

  let rec mul x y =
    match x with
    | XI p -> add y (XO (mul p y))
    | XO p -> XO (mul p y)
    | XH -> y

  (** val iter : ('a1 -> 'a1) -> 'a1 -> positive -> 'a1 **)

  let rec iter f x = function
  | XI n' -> f (iter f (iter f x n') n')
  | XO n' -> iter f (iter f x n') n'
  | XH -> f x

  (** val size_nat : positive -> nat **)

  let rec size_nat = function
  | XI p0 -> S (size_nat p0)
  | XO p0 -> S (size_nat p0)
  | XH -> S O

  (** val compare_cont : comparison -> positive -> positive -> comparison **)

  let rec compare_cont r x y =
    match x with
    | XI p ->
      (match y with
       | XI q0 -> compare_cont r p q0
       | XO q0 -> compare_cont Gt p q0
       | XH -> Gt)
    | XO p ->
      (match y with
       | XI q0 -> compare_cont Lt p q0
       | XO q0 -> compare_cont r p q0
       | XH -> Gt)
    | XH -> (match y with
             | XH -> r
             | _ -> Lt)

  (** val compare : positive -> positive -> comparison **)

  let compare =
    compare_cont Eq

  (** val eqb : positive -> positive -> bool **)

  let rec eqb p q0 =
    match p with
    | XI p0 -> (match q0 with
                | XI q1 -> eqb p0 q1
                | _ -> false)
    | XO p0 -> (match q0 with
                | XO q1 -> eqb p0 q1
                | _ -> false)
    | XH -> (match q0 with
             | XH -> true
             | _ -> false)

  (** val ggcdn :
      nat -> positive -> positive -> positive * (positive * positive) **)

  let rec ggcdn n0 a b =
    match n0 with
    | O -> (XH, (a, b))
    | S n1 ->
      (match a with
       | XI a' ->
         (match b with
          | XI b' ->
            (match compare a' b' with
             | Eq -> (a, (XH, XH))
             | Lt ->
               let (g, p) = ggcdn n1 (sub b' a') a in
               let (ba, aa) = p in (g, (aa, (add aa (XO ba))))
             | Gt ->
               let (g, p) = ggcdn n1 (sub a' b') b in
               let (ab, bb) = p in (g, ((add bb (XO ab)), bb)))
          | XO b0 ->
            let (g, p) = ggcdn n1 a b0 in
            let (aa, bb) = p in (g, (aa, (XO bb)))
          | XH -> (XH, (a, XH)))
       | XO a0 ->
         (match b with
          | XI _ ->
            let (g, p) = ggcdn n1 a0 b in
            let (aa, bb) = p in (g, ((XO aa), bb))
          | XO b0 -> let (g, p) = ggcdn n1 a0 b0 in ((XO g), p)
          | XH -> (XH, (a, XH)))
       | XH -> (XH, (XH, b)))

  (** val ggcd : positive -> positive -> positive * (positive * positive) **)

  let ggcd a b =
    ggcdn (Coq__1.add (size_nat a) (size_nat b)) a b

  (** val iter_op : ('a1 -> 'a1 -> 'a1) -> positive -> 'a1 -> 'a1 **)

  let rec iter_op op p a =
    match p with
    | XI p0 -> op a (iter_op op p0 (op a a))
    | XO p0 -> iter_op op p0 (op a a)
    | XH -> a

  (** val to_nat : positive -> nat **)

  let to_nat x =
    iter_op Coq__1.add x (S O)

  (** val of_succ_nat : nat -> positive **)

  let rec of_succ_nat = function
  | O -> XH
  | S x -> succ (of_succ_nat x)

  (** val of_uint_acc : uint -> positive -> positive **)

  let rec of_uint_acc d acc =
    match d with
    | Nil -> acc
    | D0 l -> of_uint_acc l (mul (XO (XI (XO XH))) acc)
    | D1 l -> of_uint_acc l (add XH (mul (XO (XI (XO XH))) acc))
    | D2 l -> of_uint_acc l (add (XO XH) (mul (XO (XI (XO XH))) acc))
    | D3 l -> of_uint_acc l (add (XI XH) (mul (XO (XI (XO XH))) acc))
    | D4 l -> of_uint_acc l (add (XO (XO XH)) (mul (XO (XI (XO XH))) acc))
    | D5 l -> of_uint_acc l (add (XI (XO XH)) (mul (XO (XI (XO XH))) acc))
    | D6 l -> of_uint_acc l (add (XO (XI XH)) (mul (XO (XI (XO XH))) acc))
    | D7 l -> of_uint_acc l (add (XI (XI XH)) (mul (XO (XI (XO XH))) acc))
    | D8 l ->
      of_uint_acc l (add (XO (XO (XO XH))) (mul (XO (XI (XO XH))) acc))
    | D9 l ->
      of_uint_acc l (add (XI (XO (XO XH))) (mul (XO (XI (XO XH))) acc))

  (** val of_uint : uint -> n **)

  let rec of_uint = function
  | Nil -> N0
  | D0 l -> of_uint l
  | D1 l -> Npos (of_uint_acc l XH)
  | D2 l -> Npos (of_uint_acc l (XO XH))
  | D3 l -> Npos (of_uint_acc l (XI XH))
  | D4 l -> Npos (of_uint_acc l (XO (XO XH)))
  | D5 l -> Npos (of_uint_acc l (XI (XO XH)))
  | D6 l -> Npos (of_uint_acc l (XO (XI XH)))
  | D7 l -> Npos (of_uint_acc l (XI (XI XH)))
  | D8 l -> Npos (of_uint_acc l (XO (XO (XO XH))))
  | D9 l -> Npos (of_uint_acc l (XI (XO (XO XH))))

  (** val to_little_uint : positive -> uint **)

  let rec to_little_uint = function
  | XI p0 -> Little.succ_double (to_little_uint p0)
  | XO p0 -> Little.double (to_little_uint p0)
  | XH -> D1 Nil

  (** val to_uint : positive -> uint **)

  let to_uint p =
    rev (to_little_uint p)
 end

module N =
 struct
  (** val add : n -> n -> n **)

  let add n0 m =
    match n0 with
    | N0 -> m
    | Npos p -> (match m with
                 | N0 -> n0
                 | Npos q0 -> Npos (Coq_Pos.add p q0))

  (** val sub : n -> n -> n **)

  let sub n0 m =
    match n0 with
    | N0 -> N0
    | Npos n' ->
      (match m with
       | N0 -> n0
       | Npos m' ->
         (match Coq_Pos.sub_mask n' m' with
          | Coq_Pos.IsPos p -> Npos p
          | _ -> N0))

  (** val mul : n -> n -> n **)

  let mul n0 m =
    match n0 with
    | N0 -> N0
    | Npos p -> (match m with
                 | N0 -> N0
                 | Npos q0 -> Npos (Coq_Pos.mul p q0))

  (** val compare : n -> n -> comparison **)

  let compare n0 m =
    match n0 with
    | N0 -> (match m with
             | N0 -> Eq
             | Npos _ -> Lt)
    | Npos n' -> (match m with
                  | N0 -> Gt
                  | Npos m' -> Coq_Pos.compare n' m')

  (** val eqb : n -> n -> bool **)

  let eqb n0 m =
    match n0 with
    | N0 -> (match m with
             | N0 -> true
             | Npos _ -> false)
    | Npos p -> (match m with
                 | N0 -> false
                 | Npos q0 -> Coq_Pos.eqb p q0)

  (** val leb : n -> n -> bool **)

  let leb x y =
    match compare x y with
    | Gt -> false
    | _ -> true

  (** val ltb : n -> n -> bool **)

  let ltb x y =
    match compare x y with
    | Lt -> true
    | _ -> false

  (** val to_nat : n -> nat **)

  let to_nat = function
  | N0 -> O
  | Npos p -> Coq_Pos.to_nat p
 end

(** val zero : char **)

let zero = '\000'

(** val one : char **)

let one = '\001'

(** val shift : bool -> char -> char **)

let shift = fun b c -> Char.chr (((Char.code c) lsl 1) land 255 + if b then 1 else 0)

(** val ascii_of_pos : positive -> char **)

let ascii_of_pos =
  let rec loop0 n0 p =
    match n0 with
    | O -> zero
    | S n' ->
      (match p with
       | XI p' -> shift true (loop0 n' p')
       | XO p' -> shift false (loop0 n' p')
       | XH -> one)
  in loop0 (S (S (S (S (S (S (S (S O))))))))

(** val ascii_of_N : n -> char **)

let ascii_of_N = function
| N0 -> zero
| Npos p -> ascii_of_pos p

(** val n_of_digits : bool list -> n **)

let rec n_of_digits = function
| [] -> N0
| b :: l' ->
  N.add (if b then Npos XH else N0) (N.mul (Npos (XO XH)) (n_of_digits l'))

(** val n_of_ascii : char -> n **)

let n_of_ascii a =
  (* If this appears, you're using Ascii internals. Please don't *)
 (fun f c ->
  let n = Char.code c in
  let h i = (n land (1 lsl i)) <> 0 in
  f (h 0) (h 1) (h 2) (h 3) (h 4) (h 5) (h 6) (h 7))
    (fun a0 a1 a2 a3 a4 a5 a6 a7 ->
    n_of_digits
      (a0 :: (a1 :: (a2 :: (a3 :: (a4 :: (a5 :: (a6 :: (a7 :: [])))))))))
    a

(** val nat_of_ascii : char -> nat **)

let nat_of_ascii a =
  N.to_nat (n_of_ascii a)

(** val nth : nat -> 'a1 list -> 'a1 -> 'a1 **)

let rec nth n0 l default =
  match n0 with
  | O -> (match l with
          | [] -> default
          | x :: _ -> x)
  | S m -> (match l with
            | [] -> default
            | _ :: t -> nth m t default)

(** val nth_error : 'a1 list -> nat -> 'a1 option **)

let rec nth_error l = function
| O -> (match l with
        | [] -> None
        | x :: _ -> Some x)
| S n1 -> (match l with
           | [] -> None
           | _ :: l0 -> nth_error l0 n1)

(** val map : ('a1 -> 'a2) -> 'a1 list -> 'a2 list **)

let rec map f = function
| [] -> []
| a :: t -> (f a) :: (map f t)

(** val fold_left : ('a1 -> 'a2 -> 'a1) -> 'a2 list -> 'a1 -> 'a1 **)

let rec fold_left f l a0 =
  match l with
  | [] -> a0
  | b :: t -> fold_left f t (f a0 b)

(** val existsb : ('a1 -> bool) -> 'a1 list -> bool **)

let rec existsb f = function
| [] -> false
| a :: l0 -> (||) (f a) (existsb f l0)

(** val forallb : ('a1 -> bool) -> 'a1 list -> bool **)

let rec forallb f = function
| [] -> true
| a :: l0 -> (&&) (f a) (forallb f l0)

(** val filter : ('a1 -> bool) -> 'a1 list -> 'a1 list **)

let rec filter f = function
| [] -> []
| x :: l0 -> if f x then x :: (filter f l0) else filter f l0

(** val firstn : nat -> 'a1 list -> 'a1 list **)

let rec firstn n0 l =
  match n0 with
  | O -> []
  | S n1 -> (match l with
             | [] -> []
             | a :: l0 -> a :: (firstn n1 l0))

module Z =
 struct
  (** val double : z -> z **)

  let double = function
  | Z0 -> Z0
  | Zpos p -> Zpos (XO p)
  | Zneg p -> Zneg (XO p)

  (** val succ_double : z -> z **)

  let succ_double = function
  | Z0 -> Zpos XH
  | Zpos p -> Zpos (XI p)
  | Zneg p -> Zneg (Coq_Pos.pred_double p)

  (** val pred_double : z -> z **)

  let pred_double = function
  | Z0 -> Zneg XH
  | Zpos p -> Zpos (Coq_Pos.pred_double p)
  | Zneg p -> Zneg (XI p)

  (** val pos_sub : positive -> positive -> z **)

  let rec pos_sub x y =
    match x with
    | XI p ->
      (match y with
       | XI q0 -> double (pos_sub p q0)
       | XO q0 -> succ_double (pos_sub p q0)
       | XH -> Zpos (XO p))
    | XO p ->
      (match y with
       | XI q0 -> pred_double (pos_sub p q0)
       | XO q0 -> double (pos_sub p q0)
       | XH -> Zpos (Coq_Pos.pred_double p))
    | XH ->
      (match y with
       | XI q0 -> Zneg (XO q0)
       | XO q0 -> Zneg (Coq_Pos.pred_double q0)
       | XH -> Z0)

  (** val add : z -> z -> z **)

  let add x y =
    match x with
    | Z0 -> y
    | Zpos x' ->
      (match y with
       | Z0 -> x
       | Zpos y' -> Zpos (Coq_Pos.add x' y')
       | Zneg y' -> pos_sub x' y')
    | Zneg x' ->
      (match y with
       | Z0 -> x
       | Zpos y' -> pos_sub y' x'
       | Zneg y' -> Zneg (Coq_Pos.add x' y'))

  (** val opp : z -> z **)

  let opp = function
  | Z0 -> Z0
  | Zpos x0 -> Zneg x0
  | Zneg x0 -> Zpos x0

  (** val sub : z -> z -> z **)

  let sub m n0 =
    add m (opp n0)

  (** val mul : z -> z -> z **)

  let mul x y =
    match x with
    | Z0 -> Z0
    | Zpos x' ->
      (match y with
       | Z0 -> Z0
       | Zpos y' -> Zpos (Coq_Pos.mul x' y')
       | Zneg y' -> Zneg (Coq_Pos.mul x' y'))
    | Zneg x' ->
      (match y with
       | Z0 -> Z0
       | Zpos y' -> Zneg (Coq_Pos.mul x' y')
       | Zneg y' -> Zpos (Coq_Pos.mul x' y'))

  (** val pow_pos : z -> positive -> z **)

  let pow_pos z0 =
    Coq_Pos.iter (mul z0) (Zpos XH)

  (** val pow : z -> z -> z **)

  let pow x = function
  | Z0 -> Zpos XH
  | Zpos p -> pow_pos x p
  | Zneg _ -> Z0

  (** val compare : z -> z -> comparison **)

  let compare x y =
    match x with
    | Z0 -> (match y with
             | Z0 -> Eq
             | Zpos _ -> Lt
             | Zneg _ -> Gt)
    | Zpos x' -> (match y with
                  | Zpos y' -> Coq_Pos.compare x' y'
                  | _ -> Gt)
    | Zneg x' ->
      (match y with
       | Zneg y' -> compOpp (Coq_Pos.compare x' y')
       | _ -> Lt)

  (** val sgn : z -> z **)

  let sgn = function
  | Z0 -> Z0
  | Zpos _ -> Zpos XH
  | Zneg _ -> Zneg XH

  (** val leb : z -> z -> bool **)

  let leb x y =
    match compare x y with
    | Gt -> false
    | _ -> true

  (** val ltb : z -> z -> bool **)

  let ltb x y =
    match compare x y with
    | Lt -> true
    | _ -> false

  (** val eqb : z -> z -> bool **)

  let eqb x y =
    match x with
    | Z0 -> (match y with
             | Z0 -> true
             | _ -> false)
    | Zpos p -> (match y with
                 | Zpos q0 -> Coq_Pos.eqb p q0
                 | _ -> false)
    | Zneg p -> (match y with
                 | Zneg q0 -> Coq_Pos.eqb p q0
                 | _ -> false)

  (** val max : z -> z -> z **)

  let max n0 m =
    match compare n0 m with
    | Lt -> m
    | _ -> n0

  (** val min : z -> z -> z **)

  let min n0 m =
    match compare n0 m with
    | Gt -> m
    | _ -> n0

  (** val abs : z -> z **)

  let abs = function
  | Zneg p -> Zpos p
  | x -> x

  (** val to_nat : z -> nat **)

  let to_nat = function
  | Zpos p -> Coq_Pos.to_nat p
  | _ -> O

  (** val to_N : z -> n **)

  let to_N = function
  | Zpos p -> Npos p
  | _ -> N0

  (** val of_nat : nat -> z **)

  let of_nat = function
  | O -> Z0
  | S n1 -> Zpos (Coq_Pos.of_succ_nat n1)

  (** val of_N : n -> z **)

  let of_N = function
  | N0 -> Z0
  | Npos p -> Zpos p

  (** val to_pos : z -> positive **)

  let to_pos = function
  | Zpos p -> p
  | _ -> XH

  (** val of_uint : uint -> z **)

  let of_uint d =
    of_N (Coq_Pos.of_uint d)

  (** val of_int : signed_int -> z **)

  let of_int = function
  | Pos d0 -> of_uint d0
  | Neg d0 -> opp (of_uint d0)

  (** val to_int : z -> signed_int **)

  let to_int = function
  | Z0 -> Pos (D0 Nil)
  | Zpos p -> Pos (Coq_Pos.to_uint p)
  | Zneg p -> Neg (Coq_Pos.to_uint p)

  (** val pos_div_eucl : positive -> z -> z * z **)

  let rec pos_div_eucl a b =
    match a with
    | XI a' ->
      let (q0, r) = pos_div_eucl a' b in
      let r' = add (mul (Zpos (XO XH)) r) (Zpos XH) in
      if ltb r' b
      then ((mul (Zpos (XO XH)) q0), r')
      else ((add (mul (Zpos (XO XH)) q0) (Zpos XH)), (sub r' b))
    | XO a' ->
      let (q0, r) = pos_div_eucl a' b in
      let r' = mul (Zpos (XO XH)) r in
      if ltb r' b
      then ((mul (Zpos (XO XH)) q0), r')
      else ((add (mul (Zpos (XO XH)) q0) (Zpos XH)), (sub r' b))
    | XH -> if leb (Zpos (XO XH)) b then (Z0, (Zpos XH)) else ((Zpos XH), Z0)

  (** val div_eucl : z -> z -> z * z **)

  let div_eucl a b =
    match a with
    | Z0 -> (Z0, Z0)
    | Zpos a' ->
      (match b with
       | Z0 -> (Z0, a)
       | Zpos _ -> pos_div_eucl a' b
       | Zneg b' ->
         let (q0, r) = pos_div_eucl a' (Zpos b') in
         (match r with
          | Z0 -> ((opp q0), Z0)
          | _ -> ((opp (add q0 (Zpos XH))), (add b r))))
    | Zneg a' ->
      (match b with
       | Z0 -> (Z0, a)
       | Zpos _ ->
         let (q0, r) = pos_div_eucl a' b in
         (match r with
          | Z0 -> ((opp q0), Z0)
          | _ -> ((opp (add q0 (Zpos XH))), (sub b r)))
       | Zneg b' -> let (q0, r) = pos_div_eucl a' (Zpos b') in (q0, (opp r)))

  (** val div : z -> z -> z **)

  let div a b =
    let (q0, _) = div_eucl a b in q0

  (** val modulo : z -> z -> z **)

  let modulo a b =
    let (_, r) = div_eucl a b in r

  (** val ggcd : z -> z -> z * (z * z) **)

  let ggcd a b =
    match a with
    | Z0 -> ((abs b), (Z0, (sgn b)))
    | Zpos a0 ->
      (match b with
       | Z0 -> ((abs a), ((sgn a), Z0))
       | Zpos b0 ->
         let (g, p) = Coq_Pos.ggcd a0 b0 in
         let (aa, bb) = p in ((Zpos g), ((Zpos aa), (Zpos bb)))
       | Zneg b0 ->
         let (g, p) = Coq_Pos.ggcd a0 b0 in
         let (aa, bb) = p in ((Zpos g), ((Zpos aa), (Zneg bb))))
    | Zneg a0 ->
      (match b with
       | Z0 -> ((abs a), ((sgn a), Z0))
       | Zpos b0 ->
         let (g, p) = Coq_Pos.ggcd a0 b0 in
         let (aa, bb) = p in ((Zpos g), ((Zneg aa), (Zpos bb)))
       | Zneg b0 ->
         let (g, p) = Coq_Pos.ggcd a0 b0 in
         let (aa, bb) = p in ((Zpos g), ((Zneg aa), (Zneg bb))))
 end

(** val zeq_bool : z -> z -> bool **)

let zeq_bool x y =
  match Z.compare x y with
  | Eq -> true
  | _ -> false

(** val eqb0 : char list -> char list -> bool **)

let rec eqb0 s1 s2 =
  match s1 with
  | [] -> (match s2 with
           | [] -> true
           | _::_ -> false)
  | c1::s1' ->
    (match s2 with
     | [] -> false
     | c2::s2' -> if (=) c1 c2 then eqb0 s1' s2' else false)

(** val append : char list -> char list -> char list **)

let rec append s1 s2 =
  match s1 with
  | [] -> s2
  | c::s1' -> c::(append s1' s2)

(** val length : char list -> nat **)

let rec length = function
| [] -> O
| _::s' -> S (length s')

(** val concat : char list -> char list list -> char list **)

let rec concat sep = function
| [] -> []
| x :: xs ->
  (match xs with
   | [] -> x
   | _ :: _ -> append x (append sep (concat sep xs)))

(** val list_ascii_of_string : char list -> char list **)

let rec list_ascii_of_string = function
| [] -> []
| ch::s0 -> ch :: (list_ascii_of_string s0)

type q = { qnum : z; qden : positive }

(** val inject_Z : z -> q **)

let inject_Z x =
  { qnum = x; qden = XH }

(** val qeq_bool : q -> q -> bool **)

let qeq_bool x y =
  zeq_bool (Z.mul x.qnum (Zpos y.qden)) (Z.mul y.qnum (Zpos x.qden))

(** val qle_bool : q -> q -> bool **)

let qle_bool x y =
  Z.leb (Z.mul x.qnum (Zpos y.qden)) (Z.mul y.qnum (Zpos x.qden))

(** val qplus : q -> q -> q **)

let qplus x y =
  { qnum = (Z.add (Z.mul x.qnum (Zpos y.qden)) (Z.mul y.qnum (Zpos x.qden)));
    qden = (Coq_Pos.mul x.qden y.qden) }

(** val qmult : q -> q -> q **)

let qmult x y =
  { qnum = (Z.mul x.qnum y.qnum); qden = (Coq_Pos.mul x.qden y.qden) }

(** val qopp : q -> q **)

let qopp x =
  { qnum = (Z.opp x.qnum); qden = x.qden }

(** val qminus : q -> q -> q **)

let qminus x y =
  qplus x (qopp y)

(** val qinv : q -> q **)

let qinv x =
  match x.qnum with
  | Z0 -> { qnum = Z0; qden = XH }
  | Zpos p -> { qnum = (Zpos x.qden); qden = p }
  | Zneg p -> { qnum = (Zneg x.qden); qden = p }

(** val qdiv : q -> q -> q **)

let qdiv x y =
  qmult x (qinv y)

(** val qred : q -> q **)

let qred q0 =
  let { qnum = q1; qden = q2 } = q0 in
  let (r1, r2) = snd (Z.ggcd q1 (Zpos q2)) in
  { qnum = r1; qden = (Z.to_pos r2) }

(** val qfloor : q -> z **)

let qfloor x =
  let { qnum = n0; qden = d } = x in Z.div n0 (Zpos d)

(** val qceiling : q -> z **)

let qceiling x =
  Z.opp (qfloor (qopp x))

type mode =
| G
| D360
| D365
| D366

(** val m360 : z list **)

let m360 =
  (Zpos (XO (XI (XI (XI XH))))) :: ((Zpos (XO (XI (XI (XI XH))))) :: ((Zpos
    (XO (XI (XI (XI XH))))) :: ((Zpos (XO (XI (XI (XI XH))))) :: ((Zpos (XO
    (XI (XI (XI XH))))) :: ((Zpos (XO (XI (XI (XI XH))))) :: ((Zpos (XO (XI
    (XI (XI XH))))) :: ((Zpos (XO (XI (XI (XI XH))))) :: ((Zpos (XO (XI (XI
    (XI XH))))) :: ((Zpos (XO (XI (XI (XI XH))))) :: ((Zpos (XO (XI (XI (XI
    XH))))) :: ((Zpos (XO (XI (XI (XI XH))))) :: [])))))))))))

(** val m365 : z list **)

let m365 =
  (Zpos (XI (XI (XI (XI XH))))) :: ((Zpos (XO (XO (XI (XI XH))))) :: ((Zpos
    (XI (XI (XI (XI XH))))) :: ((Zpos (XO (XI (XI (XI XH))))) :: ((Zpos (XI
    (XI (XI (XI XH))))) :: ((Zpos (XO (XI (XI (XI XH))))) :: ((Zpos (XI (XI
    (XI (XI XH))))) :: ((Zpos (XI (XI (XI (XI XH))))) :: ((Zpos (XO (XI (XI
    (XI XH))))) :: ((Zpos (XI (XI (XI (XI XH))))) :: ((Zpos (XO (XI (XI (XI
    XH))))) :: ((Zpos (XI (XI (XI (XI XH))))) :: [])))))))))))

(** val m366 : z list **)

let m366 =
  (Zpos (XI (XI (XI (XI XH))))) :: ((Zpos (XI (XO (XI (XI XH))))) :: ((Zpos
    (XI (XI (XI (XI XH))))) :: ((Zpos (XO (XI (XI (XI XH))))) :: ((Zpos (XI
    (XI (XI (XI XH))))) :: ((Zpos (XO (XI (XI (XI XH))))) :: ((Zpos (XI (XI
    (XI (XI XH))))) :: ((Zpos (XI (XI (XI (XI XH))))) :: ((Zpos (XO (XI (XI
    (XI XH))))) :: ((Zpos (XI (XI (XI (XI XH))))) :: ((Zpos (XO (XI (XI (XI
    XH))))) :: ((Zpos (XI (XI (XI (XI XH))))) :: [])))))))))))

(** val is_leap : z -> bool **)

let is_leap y =
  (&&) (Z.eqb (Z.modulo y (Zpos (XO (XO XH)))) Z0)
    ((||)
      (negb (Z.eqb (Z.modulo y (Zpos (XO (XO (XI (XO (XO (XI XH)))))))) Z0))
      (Z.eqb (Z.modulo y (Zpos (XO (XO (XO (XO (XI (XO (XO (XI XH))))))))))
        Z0))

(** val months_common : mode -> z list **)

let months_common = function
| D360 -> m360
| D366 -> m366
| _ -> m365

(** val months_leap : mode -> z list **)

let months_leap md = match md with
| G -> m366
| _ -> months_common md

(** val months : mode -> z -> z list **)

let months md y =
  if is_leap y then months_leap md else months_common md

(** val mlen : mode -> z -> z -> z **)

let mlen md y m =
  nth (Z.to_nat (Z.sub m (Zpos XH))) (months md y) Z0

(** val ylen : mode -> z -> z **)

let ylen md y =
  match md with
  | G ->
    if is_leap y
    then Zpos (XO (XI (XI (XI (XO (XI (XI (XO XH))))))))
    else Zpos (XI (XO (XI (XI (XO (XI (XI (XO XH))))))))
  | D360 -> Zpos (XO (XO (XO (XI (XO (XI (XI (XO XH))))))))
  | D365 -> Zpos (XI (XO (XI (XI (XO (XI (XI (XO XH))))))))
  | D366 -> Zpos (XO (XI (XI (XI (XO (XI (XI (XO XH))))))))

(** val dby : mode -> z -> z **)

let dby md y =
  match md with
  | G ->
    Z.add
      (Z.sub
        (Z.add (Z.mul (Zpos (XI (XO (XI (XI (XO (XI (XI (XO XH))))))))) y)
          (Z.div (Z.add y (Zpos (XI XH))) (Zpos (XO (XO XH)))))
        (Z.div (Z.add y (Zpos (XI (XI (XO (XO (XO (XI XH)))))))) (Zpos (XO
          (XO (XI (XO (XO (XI XH)))))))))
      (Z.div (Z.add y (Zpos (XI (XI (XI (XI (XO (XO (XO (XI XH))))))))))
        (Zpos (XO (XO (XO (XO (XI (XO (XO (XI XH))))))))))
  | D360 -> Z.mul (Zpos (XO (XO (XO (XI (XO (XI (XI (XO XH))))))))) y
  | D365 -> Z.mul (Zpos (XI (XO (XI (XI (XO (XI (XI (XO XH))))))))) y
  | D366 -> Z.mul (Zpos (XO (XI (XI (XI (XO (XI (XI (XO XH))))))))) y

(** val cum365 : z -> z **)

let cum365 k =
  if Z.leb k Z0
  then Z0
  else if Z.eqb k (Zpos XH)
       then Zpos (XI (XI (XI (XI XH))))
       else if Z.eqb k (Zpos (XO XH))
            then Zpos (XI (XI (XO (XI (XI XH)))))
            else if Z.eqb k (Zpos (XI XH))
                 then Zpos (XO (XI (XO (XI (XI (XO XH))))))
                 else if Z.eqb k (Zpos (XO (XO XH)))
                      then Zpos (XO (XO (XO (XI (XI (XI XH))))))
                      else if Z.eqb k (Zpos (XI (XO XH)))
                           then Zpos (XI (XI (XI (XO (XI (XO (XO XH)))))))
                           else if Z.eqb k (Zpos (XO (XI XH)))
                                then Zpos (XI (XO (XI (XO (XI (XI (XO
                                       XH)))))))
                                else if Z.eqb k (Zpos (XI (XI XH)))
                                     then Zpos (XO (XO (XI (XO (XI (XO (XI
                                            XH)))))))
                                     else if Z.eqb k (Zpos (XO (XO (XO XH))))
                                          then Zpos (XI (XI (XO (XO (XI (XI
                                                 (XI XH)))))))
                                          else if Z.eqb k (Zpos (XI (XO (XO
                                                    XH))))
                                               then Zpos (XI (XO (XO (XO (XI
                                                      (XO (XO (XO XH))))))))
                                               else if Z.eqb k (Zpos (XO (XI
                                                         (XO XH))))
                                                    then Zpos (XO (XO (XO (XO
                                                           (XI (XI (XO (XO
                                                           XH))))))))
                                                    else if Z.eqb k (Zpos (XI
                                                              (XI (XO XH))))
                                                         then Zpos (XO (XI
                                                                (XI (XI (XO
                                                                (XO (XI (XO
                                                                XH))))))))
                                                         else Zpos (XI (XO
                                                                (XI (XI (XO
                                                                (XI (XI (XO
                                                                XH))))))))

(** val cum : mode -> z -> z -> z **)

let cum md y k =
  match md with
  | G ->
    Z.add (cum365 k)
      (if (&&) (Z.leb (Zpos (XO XH)) k) (is_leap y) then Zpos XH else Z0)
  | D360 ->
    Z.mul (Zpos (XO (XI (XI (XI XH)))))
      (Z.max Z0 (Z.min k (Zpos (XO (XO (XI XH))))))
  | D365 -> cum365 k
  | D366 -> Z.add (cum365 k) (if Z.leb (Zpos (XO XH)) k then Zpos XH else Z0)

(** val dn_cal : mode -> z -> z -> z -> z **)

let dn_cal md y m d =
  Z.add (Z.add (dby md y) (cum md y (Z.sub m (Zpos XH)))) (Z.sub d (Zpos XH))

(** val dn_ord : mode -> z -> z -> z **)

let dn_ord md y doy =
  Z.add (dby md y) (Z.sub doy (Zpos XH))

(** val ref_monday : mode -> z **)

let ref_monday md =
  dn_cal md (Zpos (XO (XO (XO (XO (XI (XO (XI (XI (XI (XI XH))))))))))) (Zpos
    XH) (Zpos (XI XH))

(** val weekday : mode -> z -> z **)

let weekday md n0 =
  Z.add (Z.modulo (Z.sub n0 (ref_monday md)) (Zpos (XI (XI XH)))) (Zpos XH)

(** val wys : mode -> z -> z **)

let wys md wy =
  let j4 = dn_cal md wy (Zpos XH) (Zpos (XO (XO XH))) in
  Z.sub j4 (Z.sub (weekday md j4) (Zpos XH))

(** val weeks_in : mode -> z -> z **)

let weeks_in md wy =
  Z.div (Z.sub (wys md (Z.add wy (Zpos XH))) (wys md wy)) (Zpos (XI (XI XH)))

(** val dn_week : mode -> z -> z -> z -> z **)

let dn_week md wy w d =
  Z.add (Z.add (wys md wy) (Z.mul (Zpos (XI (XI XH))) (Z.sub w (Zpos XH))))
    (Z.sub d (Zpos XH))

(** val valid_cal : mode -> z -> z -> z -> bool **)

let valid_cal md y m d =
  (&&)
    ((&&) ((&&) (Z.leb (Zpos XH) m) (Z.leb m (Zpos (XO (XO (XI XH))))))
      (Z.leb (Zpos XH) d)) (Z.leb d (mlen md y m))

(** val valid_ord : mode -> z -> z -> bool **)

let valid_ord md y doy =
  (&&) (Z.leb (Zpos XH) doy) (Z.leb doy (ylen md y))

(** val valid_week : mode -> z -> z -> z -> bool **)

let valid_week md wy w d =
  (&&)
    ((&&) ((&&) (Z.leb (Zpos XH) w) (Z.leb w (weeks_in md wy)))
      (Z.leb (Zpos XH) d)) (Z.leb d (Zpos (XI (XI XH))))

(** val uint_of_char : char -> uint option -> uint option **)

let uint_of_char a = function
| Some d0 ->
  (* If this appears, you're using Ascii internals. Please don't *)
 (fun f c ->
  let n = Char.code c in
  let h i = (n land (1 lsl i)) <> 0 in
  f (h 0) (h 1) (h 2) (h 3) (h 4) (h 5) (h 6) (h 7))
    (fun b b0 b1 b2 b3 b4 b5 b6 ->
    if b
    then if b0
         then if b1
              then if b2
                   then None
                   else if b3
                        then if b4
                             then if b5
                                  then None
                                  else if b6 then None else Some (D7 d0)
                             else None
                        else None
              else if b2
                   then None
                   else if b3
                        then if b4
                             then if b5
                                  then None
                                  else if b6 then None else Some (D3 d0)
                             else None
                        else None
         else if b1
              then if b2
                   then None
                   else if b3
                        then if b4
                             then if b5
                                  then None
                                  else if b6 then None else Some (D5 d0)
                             else None
                        else None
              else if b2
                   then if b3
                        then if b4
                             then if b5
                                  then None
                                  else if b6 then None else Some (D9 d0)
                             else None
                        else None
                   else if b3
                        then if b4
                             then if b5
                                  then None
                                  else if b6 then None else Some (D1 d0)
                             else None
                        else None
    else if b0
         then if b1
              then if b2
                   then None
                   else if b3
                        then if b4
                             then if b5
                                  then None
                                  else if b6 then None else Some (D6 d0)
                             else None
                        else None
              else if b2
                   then None
                   else if b3
                        then if b4
                             then if b5
                                  then None
                                  else if b6 then None else Some (D2 d0)
                             else None
                        else None
         else if b1
              then if b2
                   then None
                   else if b3
                        then if b4
                             then if b5
                                  then None
                                  else if b6 then None else Some (D4 d0)
                             else None
                        else None
              else if b2
                   then if b3
                        then if b4
                             then if b5
                                  then None
                                  else if b6 then None else Some (D8 d0)
                             else None
                        else None
                   else if b3
                        then if b4
                             then if b5
                                  then None
                                  else if b6 then None else Some (D0 d0)
                             else None
                        else None)
    a
| None -> None

module NilEmpty =
 struct
  (** val string_of_uint : uint -> char list **)

  let rec string_of_uint = function
  | Nil -> []
  | D0 d0 -> '0'::(string_of_uint d0)
  | D1 d0 -> '1'::(string_of_uint d0)
  | D2 d0 -> '2'::(string_of_uint d0)
  | D3 d0 -> '3'::(string_of_uint d0)
  | D4 d0 -> '4'::(string_of_uint d0)
  | D5 d0 -> '5'::(string_of_uint d0)
  | D6 d0 -> '6'::(string_of_uint d0)
  | D7 d0 -> '7'::(string_of_uint d0)
  | D8 d0 -> '8'::(string_of_uint d0)
  | D9 d0 -> '9'::(string_of_uint d0)

  (** val uint_of_string : char list -> uint option **)

  let rec uint_of_string = function
  | [] -> Some Nil
  | a::s0 -> uint_of_char a (uint_of_string s0)
 end

module NilZero =
 struct
  (** val string_of_uint : uint -> char list **)

  let string_of_uint d = match d with
  | Nil -> '0'::[]
  | _ -> NilEmpty.string_of_uint d

  (** val uint_of_string : char list -> uint option **)

  let uint_of_string s = match s with
  | [] -> None
  | _::_ -> NilEmpty.uint_of_string s

  (** val string_of_int : signed_int -> char list **)

  let string_of_int = function
  | Pos d0 -> string_of_uint d0
  | Neg d0 -> '-'::(string_of_uint d0)

  (** val int_of_string : char list -> signed_int option **)

  let int_of_string s = match s with
  | [] -> None
  | a::s' ->
    if (=) a '-'
    then option_map (fun x -> Neg x) (uint_of_string s')
    else option_map (fun x -> Pos x) (uint_of_string s)
 end

(** val qz : z -> q **)

let qz =
  inject_Z

(** val qdivmod : q -> z -> z * q **)

let qdivmod x k =
  let q0 = qfloor (qdiv x (qz k)) in
  (q0, (qred (qminus x (qmult (qz q0) (qz k)))))

(** val qtrunc : q -> z **)

let qtrunc x =
  if qle_bool { qnum = Z0; qden = XH } x then qfloor x else qceiling x

(** val qeqb : q -> q -> bool **)

let qeqb =
  qeq_bool

(** val qltb : q -> q -> bool **)

let qltb a b =
  negb (qle_bool b a)

(** val qleb : q -> q -> bool **)

let qleb =
  qle_bool

(** val qis_int : q -> bool **)

let qis_int x =
  qeq_bool x (qz (qfloor x))

(** val qadd : q -> q -> q **)

let qadd a b =
  qred (qplus a b)

(** val qsub : q -> q -> q **)

let qsub a b =
  qred (qminus a b)

(** val qmul : q -> q -> q **)

let qmul a b =
  qred (qmult a b)

(** val qdivz : q -> z -> q **)

let qdivz a k =
  qred (qdiv a (qz k))

(** val show_Z : z -> char list **)

let show_Z z0 =
  NilZero.string_of_int (Z.to_int z0)

(** val read_Z : char list -> z option **)

let read_Z s =
  match NilZero.int_of_string s with
  | Some i -> Some (Z.of_int i)
  | None -> None

(** val show_Q : q -> char list **)

let show_Q q0 =
  let r = qred q0 in
  if Z.eqb (Zpos r.qden) (Zpos XH)
  then show_Z r.qnum
  else append (show_Z r.qnum) (append ('/'::[]) (show_Z (Zpos r.qden)))

(** val split_on : char -> char list -> char list -> char list list **)

let rec split_on c s cur =
  match s with
  | [] -> cur :: []
  | a::r ->
    if (=) a c
    then cur :: (split_on c r [])
    else split_on c r (append cur (a::[]))

(** val words : char list -> char list list **)

let words s =
  filter (fun w -> negb (eqb0 w [])) (split_on ' ' s [])

(** val read_Q : char list -> q option **)

let read_Q s =
  match split_on '/' s [] with
  | [] -> None
  | n0 :: l ->
    (match l with
     | [] -> (match read_Z n0 with
              | Some z0 -> Some (qz z0)
              | None -> None)
     | d :: l0 ->
       (match l0 with
        | [] ->
          (match read_Z n0 with
           | Some a ->
             (match read_Z d with
              | Some z0 ->
                (match z0 with
                 | Zpos p -> Some (qred { qnum = a; qden = p })
                 | _ -> None)
              | None -> None)
           | None -> None)
        | _ :: _ -> None))

(** val unwords : char list list -> char list **)

let unwords l =
  concat (' '::[]) l

(** val qabs : q -> q **)

let qabs x =
  let { qnum = n0; qden = d } = x in { qnum = (Z.abs n0); qden = d }

(** val leap_factors : (z * bool) list **)

let leap_factors =
  ((Zpos (XO (XO XH))), true) :: (((Zpos (XO (XO (XI (XO (XO (XI XH))))))),
    false) :: (((Zpos (XO (XO (XO (XO (XI (XO (XO (XI XH))))))))),
    true) :: []))

(** val get_is_leap_year : z -> bool **)

let get_is_leap_year y =
  fold_left (fun acc ft ->
    if Z.eqb (Z.modulo y (fst ft)) Z0 then snd ft else acc) leap_factors false

(** val zsum : z list -> z **)

let zsum l =
  fold_left Z.add l Z0

(** val dAYS_IN_MONTHS : mode -> z list **)

let dAYS_IN_MONTHS =
  months_common

(** val dAYS_IN_MONTHS_LEAP : mode -> z list **)

let dAYS_IN_MONTHS_LEAP =
  months_leap

(** val dAYS_IN_YEAR : mode -> z **)

let dAYS_IN_YEAR md =
  zsum (dAYS_IN_MONTHS md)

(** val dAYS_IN_YEAR_LEAP : mode -> z **)

let dAYS_IN_YEAR_LEAP md =
  zsum (dAYS_IN_MONTHS_LEAP md)

(** val get_days_in_year : mode -> z -> z **)

let get_days_in_year md y =
  if get_is_leap_year y then dAYS_IN_YEAR_LEAP md else dAYS_IN_YEAR md

(** val year_months : mode -> z -> z list **)

let year_months md y =
  if get_is_leap_year y then dAYS_IN_MONTHS_LEAP md else dAYS_IN_MONTHS md

(** val znth : z list -> z -> z **)

let znth l k =
  nth (Z.to_nat k) l Z0

(** val get_days_in_month : mode -> z -> z -> z **)

let get_days_in_month md m y =
  znth (year_months md y) (Z.sub m (Zpos XH))

(** val get_days_in_month_leap : mode -> z -> z **)

let get_days_in_month_leap md m =
  znth (dAYS_IN_MONTHS_LEAP md) (Z.sub m (Zpos XH))

(** val next_multiple : z -> z -> z **)

let next_multiple x f =
  Z.add x (Z.modulo (Z.opp x) f)

(** val range_corrections : z -> z -> z -> z **)

let range_corrections s e f =
  let nc =
    Z.add (if Z.eqb (Z.modulo s f) Z0 then Zpos XH else Z0)
      (if (&&) (negb (Z.eqb e s)) (Z.eqb (Z.modulo e f) Z0)
       then Zpos XH
       else Z0)
  in
  let fsy = Z.min (next_multiple (Z.add s (Zpos XH)) f) e in
  if Z.ltb fsy e
  then Z.add (Z.add nc (Zpos XH)) (Z.div (Z.sub e (Z.add fsy (Zpos XH))) f)
  else nc

(** val get_days_in_year_range : mode -> z -> z -> z **)

let get_days_in_year_range md s e =
  if Z.eqb s e
  then get_days_in_year md s
  else if Z.ltb e s
       then Z0
       else let diff = Z.sub (dAYS_IN_YEAR_LEAP md) (dAYS_IN_YEAR md) in
            fold_left (fun days ft ->
              let nc = range_corrections s e (fst ft) in
              if snd ft
              then Z.add days (Z.mul nc diff)
              else Z.sub days (Z.mul nc diff)) leap_factors
              (Z.mul (Z.sub (Z.add e (Zpos XH)) s) (dAYS_IN_YEAR md))

(** val walk_months : z list -> z -> z -> (z * z) option **)

let rec walk_months ms m k =
  match ms with
  | [] -> None
  | len :: r ->
    if Z.leb k len
    then Some (m, k)
    else walk_months r (Z.add m (Zpos XH)) (Z.sub k len)

(** val cal_from_ord : mode -> z -> z -> ((z * z) * z) option **)

let cal_from_ord md y doy =
  if Z.ltb doy (Zpos XH)
  then None
  else (match walk_months (year_months md y) (Zpos XH) doy with
        | Some p -> let (m, d) = p in Some ((y, m), d)
        | None -> None)

(** val cum_months : z list -> z -> z **)

let cum_months ms k =
  zsum (firstn (Z.to_nat k) ms)

(** val ord_from_cal : mode -> z -> z -> z -> (z * z) option **)

let ord_from_cal md y m d =
  let ms = year_months md y in
  if (&&)
       ((&&) ((&&) (Z.leb (Zpos XH) m) (Z.leb m (Zpos (XO (XO (XI XH))))))
         (Z.leb (Zpos XH) d)) (Z.leb d (znth ms (Z.sub m (Zpos XH))))
  then Some (y, (Z.add (cum_months ms (Z.sub m (Zpos XH))) d))
  else None

(** val rEF_YEAR : z **)

let rEF_YEAR =
  Zpos (XO (XO (XO (XO (XI (XO (XI (XI (XI (XI XH))))))))))

(** val rEF_MONTH : z **)

let rEF_MONTH =
  Zpos XH

(** val rEF_DAY : z **)

let rEF_DAY =
  Zpos (XI XH)

(** val rEF_ORD : z **)

let rEF_ORD =
  Zpos (XI XH)

(** val week_date_start : mode -> z -> (z * z) * z **)

let week_date_start md year =
  if Z.eqb year rEF_YEAR
  then ((rEF_YEAR, rEF_MONTH), rEF_DAY)
  else let days_diff =
         if Z.ltb rEF_YEAR year
         then Z.add (Z.sub (Zpos XH) rEF_ORD)
                (get_days_in_year_range md rEF_YEAR (Z.sub year (Zpos XH)))
         else Z.add (Z.sub rEF_ORD (Zpos (XO XH)))
                (get_days_in_year_range md year (Z.sub rEF_YEAR (Zpos XH)))
       in
       let wd = Z.modulo days_diff (Zpos (XI (XI XH))) in
       let dow =
         if Z.ltb rEF_YEAR year
         then Z.add wd (Zpos XH)
         else Z.sub (Zpos (XI (XI XH))) wd
       in
       if Z.eqb dow (Zpos XH)
       then ((year, (Zpos XH)), (Zpos XH))
       else if Z.ltb (Zpos (XO (XO XH))) dow
            then ((year, (Zpos XH)),
                   (Z.add (Zpos XH) (Z.sub (Zpos (XO (XO (XO XH)))) dow)))
            else (((Z.sub year (Zpos XH)), (Zpos (XO (XO (XI XH))))),
                   (Z.sub
                     (znth (year_months md (Z.sub year (Zpos XH))) (Zpos (XI
                       (XI (XO XH))))) (Z.sub dow (Zpos (XO XH)))))

(** val triple_ltb : ((z * z) * z) -> ((z * z) * z) -> bool **)

let triple_ltb a b =
  let (p, a3) = a in
  let (a1, a2) = p in
  let (p0, b3) = b in
  let (b1, b2) = p0 in
  (||) (Z.ltb a1 b1)
    ((&&) (Z.eqb a1 b1)
      ((||) (Z.ltb a2 b2) ((&&) (Z.eqb a2 b2) (Z.ltb a3 b3))))

(** val triple_leb : ((z * z) * z) -> ((z * z) * z) -> bool **)

let triple_leb a b =
  negb (triple_ltb b a)

(** val ord_week_date_start : mode -> z -> (z * z) option **)

let ord_week_date_start md year =
  let (p, cd) = week_date_start md year in
  let (cy, cm) = p in ord_from_cal md cy cm cd

(** val cal_from_week : mode -> z -> z -> z -> ((z * z) * z) option **)

let cal_from_week md y w d =
  let n0 =
    Z.sub (Z.add (Z.mul (Z.sub w (Zpos XH)) (Zpos (XI (XI XH)))) d) (Zpos XH)
  in
  let (p, sd) = week_date_start md y in
  let (sy, sm) = p in
  if Z.eqb n0 Z0
  then Some ((sy, sm), sd)
  else if Z.ltb n0 Z0
       then None
       else (match ord_from_cal md sy sm sd with
             | Some p0 ->
               let (_, so) = p0 in
               let rem = Z.sub (get_days_in_year md sy) so in
               if Z.leb n0 rem
               then cal_from_ord md sy (Z.add so n0)
               else let n1 = Z.sub n0 rem in
                    if Z.ltb sy y
                    then if Z.leb n1 (get_days_in_year md y)
                         then cal_from_ord md y n1
                         else let n2 = Z.sub n1 (get_days_in_year md y) in
                              if Z.leb n2
                                   (get_days_in_year md (Z.add y (Zpos XH)))
                              then cal_from_ord md (Z.add y (Zpos XH)) n2
                              else None
                    else if Z.leb n1 (get_days_in_year md (Z.add y (Zpos XH)))
                         then cal_from_ord md (Z.add y (Zpos XH)) n1
                         else None
             | None -> None)

(** val week_from_cal : mode -> z -> z -> z -> ((z * z) * z) option **)

let week_from_cal md y m d =
  let prev = week_date_start md (Z.sub y (Zpos XH)) in
  let this = week_date_start md y in
  let next = week_date_start md (Z.add y (Zpos XH)) in
  let cd = ((y, m), d) in
  if (&&) (triple_leb prev cd) (triple_ltb cd this)
  then let wy = Z.sub y (Zpos XH) in
       let (p, sd) = prev in
       let (sy, sm) = p in
       (match ord_from_cal md y m d with
        | Some p0 ->
          let (_, o) = p0 in
          (match ord_from_cal md sy sm sd with
           | Some p1 ->
             let (_, so) = p1 in
             let total =
               if Z.eqb sy y
               then if Z.leb so o then Some (Z.sub o so) else None
               else if Z.eqb (Z.add sy (Zpos XH)) y
                    then Some (Z.add (Z.sub (get_days_in_year md sy) so) o)
                    else if Z.eqb (Z.add sy (Zpos (XO XH))) y
                         then Some
                                (Z.add
                                  (Z.add (Z.sub (get_days_in_year md sy) so)
                                    (get_days_in_year md (Z.add sy (Zpos XH))))
                                  o)
                         else None
             in
             (match total with
              | Some t ->
                Some ((wy, (Z.add (Z.div t (Zpos (XI (XI XH)))) (Zpos XH))),
                  (Z.add (Z.modulo t (Zpos (XI (XI XH)))) (Zpos XH)))
              | None -> None)
           | None -> None)
        | None -> None)
  else if (&&) (triple_leb this cd) (triple_ltb cd next)
       then let (p, sd) = this in
            let (sy, sm) = p in
            (match ord_from_cal md y m d with
             | Some p0 ->
               let (_, o) = p0 in
               (match ord_from_cal md sy sm sd with
                | Some p1 ->
                  let (_, so) = p1 in
                  let total =
                    if Z.eqb sy y
                    then if Z.leb so o then Some (Z.sub o so) else None
                    else if Z.eqb (Z.add sy (Zpos XH)) y
                         then Some
                                (Z.add (Z.sub (get_days_in_year md sy) so) o)
                         else if Z.eqb (Z.add sy (Zpos (XO XH))) y
                              then Some
                                     (Z.add
                                       (Z.add
                                         (Z.sub (get_days_in_year md sy) so)
                                         (get_days_in_year md
                                           (Z.add sy (Zpos XH)))) o)
                              else None
                  in
                  (match total with
                   | Some t ->
                     Some ((y,
                       (Z.add (Z.div t (Zpos (XI (XI XH)))) (Zpos XH))),
                       (Z.add (Z.modulo t (Zpos (XI (XI XH)))) (Zpos XH)))
                   | None -> None)
                | None -> None)
             | None -> None)
       else let wy = Z.add y (Zpos XH) in
            let (p, sd) = next in
            let (sy, sm) = p in
            (match ord_from_cal md y m d with
             | Some p0 ->
               let (_, o) = p0 in
               (match ord_from_cal md sy sm sd with
                | Some p1 ->
                  let (_, so) = p1 in
                  let total =
                    if Z.eqb sy y
                    then if Z.leb so o then Some (Z.sub o so) else None
                    else if Z.eqb (Z.add sy (Zpos XH)) y
                         then Some
                                (Z.add (Z.sub (get_days_in_year md sy) so) o)
                         else if Z.eqb (Z.add sy (Zpos (XO XH))) y
                              then Some
                                     (Z.add
                                       (Z.add
                                         (Z.sub (get_days_in_year md sy) so)
                                         (get_days_in_year md
                                           (Z.add sy (Zpos XH)))) o)
                              else None
                  in
                  (match total with
                   | Some t ->
                     Some ((wy,
                       (Z.add (Z.div t (Zpos (XI (XI XH)))) (Zpos XH))),
                       (Z.add (Z.modulo t (Zpos (XI (XI XH)))) (Zpos XH)))
                   | None -> None)
                | None -> None)
             | None -> None)

(** val ord_from_week : mode -> z -> z -> z -> (z * z) option **)

let ord_from_week md y w d =
  match cal_from_week md y w d with
  | Some p ->
    let (p0, cd) = p in let (cy, cm) = p0 in ord_from_cal md cy cm cd
  | None -> None

(** val week_from_ord : mode -> z -> z -> ((z * z) * z) option **)

let week_from_ord md y doy =
  match cal_from_ord md y doy with
  | Some p ->
    let (p0, cd) = p in let (cy, cm) = p0 in week_from_cal md cy cm cd
  | None -> None

(** val sum_ylen : mode -> z -> nat -> z **)

let rec sum_ylen md a = function
| O -> Z0
| S k -> Z.add (get_days_in_year md a) (sum_ylen md (Z.add a (Zpos XH)) k)

(** val get_weeks_in_year : mode -> z -> z **)

let get_weeks_in_year md y =
  match ord_week_date_start md y with
  | Some p ->
    let (cy, co) = p in
    (match ord_week_date_start md (Z.add y (Zpos XH)) with
     | Some p0 ->
       let (cyn, con) = p0 in
       Z.div
         (Z.add (Z.sub con co) (sum_ylen md cy (Z.to_nat (Z.sub cyn cy))))
         (Zpos (XI (XI XH)))
     | None -> Z0)
  | None -> Z0

(** val get_days_since_1_ad : mode -> z -> z **)

let get_days_since_1_ad md y =
  if Z.eqb y (Zpos XH)
  then get_days_in_year md y
  else if Z.ltb y (Zpos XH) then Z0 else get_days_in_year_range md (Zpos XH) y

type dur =
| DW of z
| DU of z * z * z * q * q * q

(** val dzero : dur **)

let dzero =
  DU (Z0, Z0, Z0, { qnum = Z0; qden = XH }, { qnum = Z0; qden = XH },
    { qnum = Z0; qden = XH })

(** val dur_make : z -> z -> z -> z -> q -> q -> q -> dur **)

let dur_make y mo w d h mi s =
  if (&&)
       ((&&)
         ((&&)
           ((&&) ((&&) ((&&) (negb (Z.eqb w Z0)) (Z.eqb y Z0)) (Z.eqb mo Z0))
             (Z.eqb d Z0)) (qeqb h { qnum = Z0; qden = XH }))
         (qeqb mi { qnum = Z0; qden = XH })) (qeqb s { qnum = Z0; qden = XH })
  then DW (Z.div (Z.mul (Zpos (XI (XI XH))) w) (Zpos (XI (XI XH))))
  else DU (y, mo, (Z.add d (Z.mul (Zpos (XI (XI XH))) w)), h, mi, s)

(** val get_is_in_weeks : dur -> bool **)

let get_is_in_weeks = function
| DW _ -> true
| DU (_, _, _, _, _, _) -> false

(** val to_days : dur -> dur **)

let to_days x = match x with
| DW w ->
  DU (Z0, Z0, (Z.mul w (Zpos (XI (XI XH)))), { qnum = Z0; qden = XH },
    { qnum = Z0; qden = XH }, { qnum = Z0; qden = XH })
| DU (_, _, _, _, _, _) -> x

(** val is_exact : dur -> bool **)

let is_exact = function
| DW _ -> true
| DU (y, mo, _, _, _, _) -> (&&) (Z.eqb y Z0) (Z.eqb mo Z0)

(** val non_nominal_seconds : dur -> q **)

let non_nominal_seconds = function
| DW w ->
  qz
    (Z.mul (Z.mul w (Zpos (XI (XI XH)))) (Zpos (XO (XO (XO (XO (XO (XO (XO
      (XI (XI (XO (XO (XO (XI (XO (XI (XO XH))))))))))))))))))
| DU (_, _, d, h, mi, s) ->
  qred
    (qplus
      (qplus
        (qplus
          (qz
            (Z.mul d (Zpos (XO (XO (XO (XO (XO (XO (XO (XI (XI (XO (XO (XO
              (XI (XO (XI (XO XH)))))))))))))))))))
          (qmult h
            (qz (Zpos (XO (XO (XO (XO (XI (XO (XO (XO (XO (XI (XI
              XH)))))))))))))))
        (qmult mi (qz (Zpos (XO (XO (XI (XI (XI XH))))))))) s)

(** val days_and_seconds : mode -> dur -> z * q **)

let days_and_seconds md = function
| DW w -> ((Z.mul w (Zpos (XI (XI XH)))), { qnum = Z0; qden = XH })
| DU (y, mo, d, h, mi, s) ->
  let nd =
    Z.add
      (Z.add (Z.mul y (dAYS_IN_YEAR md))
        (Z.mul mo (Zpos (XO (XI (XI (XI XH))))))) d
  in
  let ns =
    qred
      (qplus
        (qplus
          (qmult h
            (qz (Zpos (XO (XO (XO (XO (XI (XO (XO (XO (XO (XI (XI
              XH))))))))))))))
          (qmult mi (qz (Zpos (XO (XO (XI (XI (XI XH))))))))) s)
  in
  let (dd, ns') =
    qdivmod ns (Zpos (XO (XO (XO (XO (XO (XO (XO (XI (XI (XO (XO (XO (XI (XO
      (XI (XO XH)))))))))))))))))
  in
  ((Z.add nd dd), ns')

(** val get_seconds : mode -> dur -> q **)

let get_seconds md x =
  if is_exact x
  then non_nominal_seconds x
  else let (d, s) = days_and_seconds md x in
       qred
         (qplus
           (qz
             (Z.mul d (Zpos (XO (XO (XO (XO (XO (XO (XO (XI (XI (XO (XO (XO
               (XI (XO (XI (XO XH))))))))))))))))))) s)

(** val dur_mul : dur -> z -> dur **)

let dur_mul x n0 =
  match x with
  | DW w -> DW (Z.mul w n0)
  | DU (y, mo, d, h, mi, s) ->
    DU ((Z.mul y n0), (Z.mul mo n0), (Z.mul d n0), (qmul h (qz n0)),
      (qmul mi (qz n0)), (qmul s (qz n0)))

(** val dur_add : dur -> dur -> dur **)

let dur_add a b =
  match a with
  | DW x ->
    (match b with
     | DW y -> DW (Z.add x y)
     | DU (_, _, _, _, _, _) ->
       (match to_days a with
        | DW _ -> a
        | DU (y1, m1, d1, h1, i1, s1) ->
          (match to_days b with
           | DW _ -> a
           | DU (y2, m2, d2, h2, i2, s2) ->
             DU ((Z.add y1 y2), (Z.add m1 m2), (Z.add d1 d2), (qadd h1 h2),
               (qadd i1 i2), (qadd s1 s2)))))
  | DU (_, _, _, _, _, _) ->
    (match to_days a with
     | DW _ -> a
     | DU (y1, m1, d1, h1, i1, s1) ->
       (match to_days b with
        | DW _ -> a
        | DU (y2, m2, d2, h2, i2, s2) ->
          DU ((Z.add y1 y2), (Z.add m1 m2), (Z.add d1 d2), (qadd h1 h2),
            (qadd i1 i2), (qadd s1 s2))))

(** val dur_sub : dur -> dur -> dur **)

let dur_sub a b =
  dur_add a (dur_mul b (Zneg XH))

(** val dur_abs : dur -> dur **)

let dur_abs = function
| DW w -> DW (Z.abs w)
| DU (y, mo, d, h, mi, s) ->
  DU ((Z.abs y), (Z.abs mo), (Z.abs d), (qred (qabs h)), (qred (qabs mi)),
    (qred (qabs s)))

(** val qfloordiv : q -> z -> q **)

let qfloordiv x n0 =
  qz (qfloor (qdiv x (qz n0)))

(** val dur_floordiv : dur -> z -> dur **)

let dur_floordiv x n0 =
  match x with
  | DW w -> DW (Z.div w n0)
  | DU (y, mo, d, h, mi, s) ->
    DU ((Z.div y n0), (Z.div mo n0), (Z.div d n0), (qfloordiv h n0),
      (qfloordiv mi n0), (qfloordiv s n0))

(** val dur_eqb : dur -> dur -> bool **)

let dur_eqb a b =
  if is_exact a
  then if is_exact b
       then qeqb (non_nominal_seconds a) (non_nominal_seconds b)
       else false
  else (match a with
        | DW _ -> false
        | DU (y1, m1, _, _, _, _) ->
          (match to_days b with
           | DW _ -> false
           | DU (y2, m2, _, _, _, _) ->
             (&&)
               ((&&) ((&&) (negb (get_is_in_weeks b)) (Z.eqb y1 y2))
                 (Z.eqb m1 m2))
               (qeqb (non_nominal_seconds a) (non_nominal_seconds b))))

(** val dur_hash_key : dur -> (z * z) * q **)

let dur_hash_key x = match x with
| DW _ -> ((Z0, Z0), (non_nominal_seconds x))
| DU (y, mo, _, _, _, _) -> ((y, mo), (non_nominal_seconds x))

(** val ds_ltb : (z * q) -> (z * q) -> bool **)

let ds_ltb a b =
  (||) (Z.ltb (fst a) (fst b))
    ((&&) (Z.eqb (fst a) (fst b)) (qltb (snd a) (snd b)))

(** val ds_leb : (z * q) -> (z * q) -> bool **)

let ds_leb a b =
  negb (ds_ltb b a)

(** val dur_ltb : mode -> dur -> dur -> bool **)

let dur_ltb md a b =
  ds_ltb (days_and_seconds md a) (days_and_seconds md b)

(** val dur_leb : mode -> dur -> dur -> bool **)

let dur_leb md a b =
  ds_leb (days_and_seconds md a) (days_and_seconds md b)

(** val dur_gtb : mode -> dur -> dur -> bool **)

let dur_gtb md a b =
  dur_ltb md b a

(** val dur_geb : mode -> dur -> dur -> bool **)

let dur_geb md a b =
  dur_leb md b a

(** val dur_bool : dur -> bool **)

let dur_bool = function
| DW w -> negb (Z.eqb w Z0)
| DU (y, mo, d, h, mi, s) ->
  negb
    ((&&)
      ((&&)
        ((&&) ((&&) ((&&) (Z.eqb y Z0) (Z.eqb mo Z0)) (Z.eqb d Z0))
          (qeqb h { qnum = Z0; qden = XH }))
        (qeqb mi { qnum = Z0; qden = XH })) (qeqb s { qnum = Z0; qden = XH }))

(** val dur_len : dur -> q **)

let dur_len =
  non_nominal_seconds

type date =
| Cal of z * z * z
| Ord of z * z
| Wk of z * z * z

type tod =
| HMS of q * q * q
| HM of q * q
| HH of q

type zone = { zh : z; zm : z }

type tp = { tdate : date; ttod : tod; tzone : zone }

(** val get_calendar_date : mode -> date -> ((z * z) * z) option **)

let get_calendar_date md = function
| Cal (y, m, dd) -> Some ((y, m), dd)
| Ord (y, doy) -> cal_from_ord md y doy
| Wk (y, w, dd) -> cal_from_week md y w dd

(** val get_ordinal_date : mode -> date -> (z * z) option **)

let get_ordinal_date md = function
| Cal (y, m, dd) -> ord_from_cal md y m dd
| Ord (y, doy) -> Some (y, doy)
| Wk (y, w, dd) -> ord_from_week md y w dd

(** val get_week_date : mode -> date -> ((z * z) * z) option **)

let get_week_date md = function
| Cal (y, m, dd) -> week_from_cal md y m dd
| Ord (y, doy) -> week_from_ord md y doy
| Wk (y, w, dd) -> Some ((y, w), dd)

(** val to_calendar_date : mode -> date -> date option **)

let to_calendar_date md d =
  match get_calendar_date md d with
  | Some p -> let (p0, dd) = p in let (y, m) = p0 in Some (Cal (y, m, dd))
  | None -> None

(** val to_ordinal_date : mode -> date -> date option **)

let to_ordinal_date md d =
  match get_ordinal_date md d with
  | Some p -> let (y, doy) = p in Some (Ord (y, doy))
  | None -> None

(** val to_week_date : mode -> date -> date option **)

let to_week_date md d =
  match get_week_date md d with
  | Some p -> let (p0, dd) = p in let (y, w) = p0 in Some (Wk (y, w, dd))
  | None -> None

(** val date_in_bounds : mode -> date -> bool **)

let date_in_bounds md = function
| Cal (y, m, dd) ->
  (&&)
    ((&&) ((&&) (Z.leb (Zpos XH) m) (Z.leb m (Zpos (XO (XO (XI XH))))))
      (Z.leb (Zpos XH) dd)) (Z.leb dd (get_days_in_month md m y))
| Ord (y, doy) ->
  (&&) (Z.leb (Zpos XH) doy) (Z.leb doy (get_days_in_year md y))
| Wk (y, w, dd) ->
  (&&)
    ((&&) ((&&) (Z.leb (Zpos XH) w) (Z.leb w (get_weeks_in_year md y)))
      (Z.leb (Zpos XH) dd)) (Z.leb dd (Zpos (XI (XI XH))))

(** val get_hour_minute_second : tod -> (q * q) * q **)

let get_hour_minute_second = function
| HMS (h, m, s) -> ((h, m), s)
| HM (h, m) ->
  let mdec = qsub m (qz (qtrunc m)) in
  ((h, (qz (qtrunc m))), (qmul (qz (Zpos (XO (XO (XI (XI (XI XH))))))) mdec))
| HH h ->
  let hdec = qsub h (qz (qtrunc h)) in
  let m = qmul (qz (Zpos (XO (XO (XI (XI (XI XH))))))) hdec in
  let mdec = qsub m (qz (qtrunc m)) in
  (((qz (qtrunc h)), (qz (qtrunc m))),
  (qmul (qz (Zpos (XO (XO (XI (XI (XI XH))))))) mdec))

(** val get_second_of_day : tod -> q **)

let get_second_of_day = function
| HMS (h, m, s) ->
  qred
    (qplus (qplus s (qmult m (qz (Zpos (XO (XO (XI (XI (XI XH)))))))))
      (qmult h
        (qz (Zpos (XO (XO (XO (XO (XI (XO (XO (XO (XO (XI (XI XH)))))))))))))))
| HM (h, m) ->
  qred
    (qplus (qmult m (qz (Zpos (XO (XO (XI (XI (XI XH))))))))
      (qmult h
        (qz (Zpos (XO (XO (XO (XO (XI (XO (XO (XO (XO (XI (XI XH)))))))))))))))
| HH h ->
  qred
    (qmult h
      (qz (Zpos (XO (XO (XO (XO (XI (XO (XO (XO (XO (XI (XI XH))))))))))))))

(** val tod_hour : tod -> q **)

let tod_hour = function
| HMS (h, _, _) -> h
| HM (h, _) -> h
| HH h -> h

(** val tick_time : tod -> tod * z **)

let tick_time = function
| HMS (h, m, s) ->
  let hr = qsub h (qz (qtrunc h)) in
  let h1 = qsub h hr in
  let m1 = qadd m (qmul hr (qz (Zpos (XO (XO (XI (XI (XI XH)))))))) in
  let mr = qsub m1 (qz (qtrunc m1)) in
  let m2 = qsub m1 mr in
  let s1 = qadd s (qmul mr (qz (Zpos (XO (XO (XI (XI (XI XH)))))))) in
  let (nm, s2) = qdivmod s1 (Zpos (XO (XO (XI (XI (XI XH)))))) in
  let m3 = qadd m2 (qz nm) in
  let (nh, m4) = qdivmod m3 (Zpos (XO (XO (XI (XI (XI XH)))))) in
  let h2 = qadd h1 (qz nh) in
  let (nd, h3) = qdivmod h2 (Zpos (XO (XO (XO (XI XH))))) in
  ((HMS (h3, m4, s2)), nd)
| HM (h, m) ->
  let hr = qsub h (qz (qtrunc h)) in
  let h1 = qsub h hr in
  let m1 = qadd m (qmul hr (qz (Zpos (XO (XO (XI (XI (XI XH)))))))) in
  let (nh, m4) = qdivmod m1 (Zpos (XO (XO (XI (XI (XI XH)))))) in
  let h2 = qadd h1 (qz nh) in
  let (nd, h3) = qdivmod h2 (Zpos (XO (XO (XO (XI XH))))) in
  ((HM (h3, m4)), nd)
| HH h ->
  let (nd, h3) = qdivmod h (Zpos (XO (XO (XO (XI XH))))) in ((HH h3), nd)

(** val guarded : ('a1 -> bool) -> ('a1 -> 'a1) -> 'a1 -> 'a1 **)

let guarded cond step a =
  if cond a then step a else a

(** val loop : ('a1 -> bool) -> ('a1 -> 'a1) -> z -> 'a1 -> 'a1 **)

let loop cond step n0 a =
  Coq_Pos.iter (guarded cond step) a (Z.to_pos n0)

(** val dom_back_cond : ((z * z) * z) -> bool **)

let dom_back_cond = function
| (_, d) -> Z.ltb d (Zpos XH)

(** val dom_back_step : mode -> ((z * z) * z) -> (z * z) * z **)

let dom_back_step md = function
| (p, d) ->
  let (y, m) = p in
  if Z.ltb (Zpos XH) m
  then ((y, (Z.sub m (Zpos XH))),
         (Z.add d (get_days_in_month md (Z.sub m (Zpos XH)) y)))
  else (((Z.sub y (Zpos XH)), (Zpos (XO (XO (XI XH))))),
         (Z.add d
           (get_days_in_month md (Zpos (XO (XO (XI XH)))) (Z.sub y (Zpos XH)))))

(** val dom_fwd_cond : mode -> ((z * z) * z) -> bool **)

let dom_fwd_cond md = function
| (p, d) -> let (y, m) = p in Z.ltb (get_days_in_month md m y) d

(** val dom_fwd_step : mode -> ((z * z) * z) -> (z * z) * z **)

let dom_fwd_step md = function
| (p, d) ->
  let (y, m) = p in
  let d' = Z.sub d (get_days_in_month md m y) in
  if Z.ltb m (Zpos (XO (XO (XI XH))))
  then ((y, (Z.add m (Zpos XH))), d')
  else (((Z.add y (Zpos XH)), (Zpos XH)), d')

(** val tick_dom : mode -> ((z * z) * z) -> (z * z) * z **)

let tick_dom md c = match c with
| (_, d) ->
  if Z.ltb d (Zpos XH)
  then loop dom_back_cond (dom_back_step md)
         (Z.add (Z.div (Z.abs d) (Zpos (XO (XO (XI (XI XH)))))) (Zpos (XO
           XH))) c
  else loop (dom_fwd_cond md) (dom_fwd_step md)
         (Z.add (Z.div (Z.abs d) (Zpos (XO (XO (XI (XI XH)))))) (Zpos (XO
           XH))) c

(** val tick_month : ((z * z) * z) -> (z * z) * z **)

let tick_month = function
| (p, d) ->
  let (y, m) = p in
  let c1 =
    loop (fun c0 ->
      let (y0, _) = c0 in let (_, m0) = y0 in Z.ltb m0 (Zpos XH)) (fun c0 ->
      let (p0, d0) = c0 in
      let (y0, m0) = p0 in
      (((Z.sub y0 (Zpos XH)), (Z.add m0 (Zpos (XO (XO (XI XH)))))), d0))
      (Z.add (Z.div (Z.abs m) (Zpos (XO (XO (XI XH))))) (Zpos (XO XH))) ((y,
      m), d)
  in
  let (p0, _) = c1 in
  let (_, m1) = p0 in
  loop (fun c0 ->
    let (y0, _) = c0 in let (_, m0) = y0 in Z.ltb (Zpos (XO (XO (XI XH)))) m0)
    (fun c0 ->
    let (p1, d0) = c0 in
    let (y0, m0) = p1 in
    (((Z.add y0 (Zpos XH)), (Z.sub m0 (Zpos (XO (XO (XI XH)))))), d0))
    (Z.add (Z.div (Z.abs m1) (Zpos (XO (XO (XI XH))))) (Zpos (XO XH))) c1

(** val tick_doy : mode -> (z * z) -> z * z **)

let tick_doy md c = match c with
| (_, doy) ->
  let c1 =
    loop (fun c0 -> Z.ltb (snd c0) (Zpos XH)) (fun c0 ->
      ((Z.sub (fst c0) (Zpos XH)),
      (Z.add (snd c0) (get_days_in_year md (Z.sub (fst c0) (Zpos XH))))))
      (Z.add
        (Z.div (Z.abs doy) (Zpos (XO (XO (XO (XI (XO (XI (XI (XO XH))))))))))
        (Zpos (XO XH))) c
  in
  loop (fun c0 -> Z.ltb (get_days_in_year md (fst c0)) (snd c0)) (fun c0 ->
    ((Z.add (fst c0) (Zpos XH)),
    (Z.sub (snd c0) (get_days_in_year md (fst c0)))))
    (Z.add
      (Z.div (Z.abs (snd c1)) (Zpos (XO (XO (XO (XI (XO (XI (XI (XO
        XH)))))))))) (Zpos (XO XH))) c1

(** val tick_woy : mode -> (z * z) -> z * z **)

let tick_woy md c = match c with
| (_, w) ->
  let c1 =
    loop (fun c0 -> Z.ltb (snd c0) (Zpos XH)) (fun c0 ->
      ((Z.sub (fst c0) (Zpos XH)),
      (Z.add (snd c0) (get_weeks_in_year md (Z.sub (fst c0) (Zpos XH))))))
      (Z.add (Z.div (Z.abs w) (Zpos (XI (XI (XO (XO (XI XH))))))) (Zpos (XO
        XH))) c
  in
  loop (fun c0 -> Z.ltb (get_weeks_in_year md (fst c0)) (snd c0)) (fun c0 ->
    ((Z.add (fst c0) (Zpos XH)),
    (Z.sub (snd c0) (get_weeks_in_year md (fst c0)))))
    (Z.add (Z.div (Z.abs (snd c1)) (Zpos (XI (XI (XO (XO (XI XH))))))) (Zpos
      (XO XH))) c1

(** val add_days_raw : date -> z -> date **)

let add_days_raw d n0 =
  match d with
  | Cal (y, m, dd) -> Cal (y, m, (Z.add dd n0))
  | Ord (y, doy) -> Ord (y, (Z.add doy n0))
  | Wk (y, w, dd) -> Wk (y, w, (Z.add dd n0))

(** val tick_date : mode -> date -> date **)

let tick_date md = function
| Cal (y, m, dd) ->
  let (p, d') = tick_month (tick_dom md ((y, m), dd)) in
  let (y', m') = p in Cal (y', m', d')
| Ord (y, doy) -> let (y', doy') = tick_doy md (y, doy) in Ord (y', doy')
| Wk (y, w, dd) ->
  let nw = Z.div (Z.sub dd (Zpos XH)) (Zpos (XI (XI XH))) in
  let dd' =
    Z.add (Z.modulo (Z.sub dd (Zpos XH)) (Zpos (XI (XI XH)))) (Zpos XH)
  in
  let (y', w') = tick_woy md (y, (Z.add w nw)) in Wk (y', w', dd')

(** val tick_over : mode -> tp -> tp **)

let tick_over md p =
  let (t', nd) = tick_time p.ttod in
  { tdate = (tick_date md (add_days_raw p.tdate nd)); ttod = t'; tzone =
  p.tzone }

(** val add_seconds : tod -> q -> tod **)

let add_seconds t s =
  match t with
  | HMS (h, m, sec) -> HMS (h, m, (qadd sec s))
  | HM (h, m) -> HM (h, (qadd m (qdivz s (Zpos (XO (XO (XI (XI (XI XH)))))))))
  | HH h ->
    HH
      (qadd h
        (qdivz s (Zpos (XO (XO (XO (XO (XI (XO (XO (XO (XO (XI (XI
          XH))))))))))))))

(** val add_minutes : tod -> q -> tod **)

let add_minutes t mi =
  match t with
  | HMS (h, m, sec) -> HMS (h, (qadd m mi), sec)
  | HM (h, m) -> HM (h, (qadd m mi))
  | HH h -> HH (qadd h (qdivz mi (Zpos (XO (XO (XI (XI (XI XH))))))))

(** val add_hours : tod -> q -> tod **)

let add_hours t x =
  match t with
  | HMS (h, m, sec) -> HMS ((qadd h x), m, sec)
  | HM (h, m) -> HM ((qadd h x), m)
  | HH h -> HH (qadd h x)

(** val with_tod : tp -> tod -> tp **)

let with_tod p t =
  { tdate = p.tdate; ttod = t; tzone = p.tzone }

(** val with_date : tp -> date -> tp **)

let with_date p d =
  { tdate = d; ttod = p.ttod; tzone = p.tzone }

(** val clamp_dom : mode -> z -> z -> z -> z **)

let clamp_dom md y m d =
  let mx =
    znth (year_months md y)
      (Z.modulo (Z.sub m (Zpos XH)) (Zpos (XO (XO (XI XH)))))
  in
  if Z.ltb mx d then mx else d

(** val month_step : mode -> z -> ((z * z) * z) -> (z * z) * z **)

let month_step md sgn0 = function
| (p, d) ->
  let (y, m) = p in
  if Z.ltb Z0 sgn0
  then if Z.ltb (Zpos (XO (XO (XI XH)))) (Z.add m (Zpos XH))
       then let y1 = Z.add y (Zpos XH) in
            let m1 = Z.sub (Z.add m (Zpos XH)) (Zpos (XO (XO (XI XH)))) in
            ((y1, m1), (clamp_dom md y1 m1 d))
       else let m1 = Z.add m (Zpos XH) in ((y, m1), (clamp_dom md y m1 d))
  else if Z.ltb (Z.sub m (Zpos XH)) (Zpos XH)
       then let y1 = Z.sub y (Zpos XH) in
            let m1 = Z.add (Z.sub m (Zpos XH)) (Zpos (XO (XO (XI XH)))) in
            ((y1, m1), (clamp_dom md y1 m1 d))
       else let m1 = Z.sub m (Zpos XH) in ((y, m1), (clamp_dom md y m1 d))

(** val add_months : mode -> tp -> z -> tp option **)

let add_months md p n0 =
  if Z.eqb n0 Z0
  then Some p
  else (match get_calendar_date md p.tdate with
        | Some c ->
          let (p0, d) =
            Coq_Pos.iter (month_step md n0) c (Z.to_pos (Z.abs n0))
          in
          let (y, m) = p0 in
          let p1 = tick_over md (with_date p (Cal (y, m, d))) in
          (match p.tdate with
           | Cal (_, _, _) -> Some p1
           | Ord (_, _) ->
             (match to_ordinal_date md p1.tdate with
              | Some d' -> Some (with_date p1 d')
              | None -> None)
           | Wk (_, _, _) ->
             (match to_week_date md p1.tdate with
              | Some d' -> Some (with_date p1 d')
              | None -> None))
        | None -> None)

(** val add_years : mode -> date -> z -> date **)

let add_years md d n0 =
  match d with
  | Cal (y, m, dd) -> Cal ((Z.add y n0), m, (clamp_dom md (Z.add y n0) m dd))
  | Ord (y, doy) ->
    let mx = get_days_in_year md (Z.add y n0) in
    Ord ((Z.add y n0), (if Z.ltb mx doy then mx else doy))
  | Wk (y, w, dd) ->
    let mx = get_weeks_in_year md (Z.add y n0) in
    Wk ((Z.add y n0), (if Z.ltb mx w then mx else w), dd)

(** val tp_add : mode -> tp -> dur -> tp option **)

let tp_add md p x =
  match to_days x with
  | DW _ -> None
  | DU (ys, mos, ds, h, mi, s) ->
    let p1 =
      if qeqb s { qnum = Z0; qden = XH }
      then p
      else tick_over md (with_tod p (add_seconds p.ttod s))
    in
    let p2 =
      if qeqb mi { qnum = Z0; qden = XH }
      then p1
      else tick_over md (with_tod p1 (add_minutes p1.ttod mi))
    in
    let p3 =
      if qeqb h { qnum = Z0; qden = XH }
      then p2
      else tick_over md (with_tod p2 (add_hours p2.ttod h))
    in
    let p4 =
      if Z.eqb ds Z0
      then p3
      else tick_over md (with_date p3 (add_days_raw p3.tdate ds))
    in
    (match if Z.eqb mos Z0 then Some p4 else add_months md p4 mos with
     | Some p5 ->
       Some
         (if Z.eqb ys Z0 then p5 else with_date p5 (add_years md p5.tdate ys))
     | None -> None)

(** val tp_sub_dur : mode -> tp -> dur -> tp option **)

let tp_sub_dur md p x =
  tp_add md p (dur_mul x (Zneg XH))

(** val zone_diff : zone -> zone -> dur **)

let zone_diff dest src =
  DU (Z0, Z0, Z0, (qz (Z.sub dest.zh src.zh)), (qz (Z.sub dest.zm src.zm)),
    { qnum = Z0; qden = XH })

(** val to_time_zone : mode -> tp -> zone -> tp option **)

let to_time_zone md p z0 =
  match tp_add md p (zone_diff z0 p.tzone) with
  | Some q0 -> Some { tdate = q0.tdate; ttod = q0.ttod; tzone = z0 }
  | None -> None

(** val zone_utc : zone **)

let zone_utc =
  { zh = Z0; zm = Z0 }

(** val to_utc : mode -> tp -> tp option **)

let to_utc md p =
  to_time_zone md p zone_utc

(** val normalised : mode -> tp -> tp **)

let normalised md p =
  if qeqb (tod_hour p.ttod) { qnum = (Zpos (XO (XO (XO (XI XH))))); qden =
       XH }
  then tick_over md p
  else p

(** val tp_props_eqb : tp -> tp -> bool **)

let tp_props_eqb a b =
  (&&)
    ((&&)
      ((&&)
        (match a.tdate with
         | Cal (y, m, d) ->
           (match b.tdate with
            | Cal (y', m', d') ->
              (&&) ((&&) (Z.eqb y y') (Z.eqb m m')) (Z.eqb d d')
            | _ -> false)
         | Ord (y, d) ->
           (match b.tdate with
            | Ord (y', d') -> (&&) (Z.eqb y y') (Z.eqb d d')
            | _ -> false)
         | Wk (y, w, d) ->
           (match b.tdate with
            | Wk (y', w', d') ->
              (&&) ((&&) (Z.eqb y y') (Z.eqb w w')) (Z.eqb d d')
            | _ -> false))
        (match a.ttod with
         | HMS (h, m, s) ->
           (match b.ttod with
            | HMS (h', m', s') ->
              (&&) ((&&) (qeqb h h') (qeqb m m')) (qeqb s s')
            | _ -> false)
         | HM (h, m) ->
           (match b.ttod with
            | HM (h', m') -> (&&) (qeqb h h') (qeqb m m')
            | _ -> false)
         | HH h -> (match b.ttod with
                    | HH h' -> qeqb h h'
                    | _ -> false))) (Z.eqb a.tzone.zh b.tzone.zh))
    (Z.eqb a.tzone.zm b.tzone.zm)

(** val cmp_key : mode -> bool -> tp -> (z list * q) option **)

let cmp_key md use_cal p =
  if use_cal
  then (match get_calendar_date md p.tdate with
        | Some p0 ->
          let (p1, d) = p0 in
          let (y, m) = p1 in
          Some ((y :: (m :: (d :: []))), (get_second_of_day p.ttod))
        | None -> None)
  else (match get_ordinal_date md p.tdate with
        | Some p0 ->
          let (y, doy) = p0 in
          Some ((y :: (doy :: [])), (get_second_of_day p.ttod))
        | None -> None)

(** val lex_cmp : z list -> z list -> comparison **)

let rec lex_cmp a b =
  match a with
  | [] -> (match b with
           | [] -> Eq
           | _ :: _ -> Lt)
  | x :: r ->
    (match b with
     | [] -> Gt
     | y :: r' -> (match Z.compare x y with
                   | Eq -> lex_cmp r r'
                   | x0 -> x0))

(** val key_cmp : (z list * q) -> (z list * q) -> comparison **)

let key_cmp a b =
  match lex_cmp (fst a) (fst b) with
  | Eq ->
    if qltb (snd a) (snd b)
    then Lt
    else if qltb (snd b) (snd a) then Gt else Eq
  | x -> x

(** val tp_cmp : mode -> tp -> tp -> comparison option **)

let tp_cmp md a b =
  if tp_props_eqb a b
  then Some Eq
  else (match to_time_zone md b a.tzone with
        | Some b1 ->
          let b2 = normalised md b1 in
          let a2 = normalised md a in
          let use_cal = match a2.tdate with
                        | Cal (_, _, _) -> true
                        | _ -> false
          in
          (match cmp_key md use_cal a2 with
           | Some ka ->
             (match cmp_key md use_cal b2 with
              | Some kb -> Some (key_cmp ka kb)
              | None -> None)
           | None -> None)
        | None -> None)

(** val cmp_op : z -> comparison -> bool **)

let cmp_op op c =
  match op with
  | Z0 -> (match c with
           | Eq -> true
           | _ -> false)
  | Zpos p ->
    (match p with
     | XI p0 ->
       (match p0 with
        | XI _ -> false
        | XO p1 ->
          (match p1 with
           | XH -> (match c with
                    | Eq -> false
                    | _ -> true)
           | _ -> false)
        | XH -> (match c with
                 | Gt -> true
                 | _ -> false))
     | XO p0 ->
       (match p0 with
        | XI _ -> false
        | XO p1 ->
          (match p1 with
           | XH -> (match c with
                    | Lt -> false
                    | _ -> true)
           | _ -> false)
        | XH -> (match c with
                 | Gt -> false
                 | _ -> true))
     | XH -> (match c with
              | Lt -> true
              | _ -> false))
  | Zneg _ -> false

(** val tp_hash_key : mode -> tp -> (((z * z) * z) * ((q * q) * q)) option **)

let tp_hash_key md p =
  match to_utc md p with
  | Some u ->
    let u' = normalised md u in
    (match get_calendar_date md u'.tdate with
     | Some p0 -> Some (p0, (get_hour_minute_second u'.ttod))
     | None -> None)
  | None -> None

(** val tp_sub_pos : mode -> tp -> tp -> dur option **)

let tp_sub_pos md a b =
  match to_time_zone md b a.tzone with
  | Some b1 ->
    let b2 = normalised md b1 in
    let a2 = normalised md a in
    (match get_ordinal_date md a2.tdate with
     | Some p ->
       let (my, mdoy) = p in
       (match get_ordinal_date md b2.tdate with
        | Some p0 ->
          let (oy, odoy) = p0 in
          let dd0 = Z.sub mdoy odoy in
          let dd =
            if Z.ltb oy my
            then Z.add dd0 (get_days_in_year_range md oy (Z.sub my (Zpos XH)))
            else Z.sub dd0 (get_days_in_year_range md my (Z.sub oy (Zpos XH)))
          in
          let (p1, ms) = get_hour_minute_second a2.ttod in
          let (mh, mm) = p1 in
          let (p2, os) = get_hour_minute_second b2.ttod in
          let (oh, om) = p2 in
          let dh = qsub mh oh in
          let dm = qsub mm om in
          let dsx = qsub ms os in
          if qltb dsx { qnum = Z0; qden = XH }
          then let dm1 = qsub dm { qnum = (Zpos XH); qden = XH } in
               let ds1 =
                 qadd dsx { qnum = (Zpos (XO (XO (XI (XI (XI XH)))))); qden =
                   XH }
               in
               if qltb dm1 { qnum = Z0; qden = XH }
               then let dh1 = qsub dh { qnum = (Zpos XH); qden = XH } in
                    let dm2 =
                      qadd dm1 { qnum = (Zpos (XO (XO (XI (XI (XI XH))))));
                        qden = XH }
                    in
                    if qltb dh1 { qnum = Z0; qden = XH }
                    then let dd1 = Z.sub dd (Zpos XH) in
                         let dh2 =
                           qadd dh1 { qnum = (Zpos (XO (XO (XO (XI XH)))));
                             qden = XH }
                         in
                         Some (DU (Z0, Z0, dd1, dh2, dm2, ds1))
                    else Some (DU (Z0, Z0, dd, dh1, dm2, ds1))
               else if qltb dh { qnum = Z0; qden = XH }
                    then let dd1 = Z.sub dd (Zpos XH) in
                         let dh2 =
                           qadd dh { qnum = (Zpos (XO (XO (XO (XI XH)))));
                             qden = XH }
                         in
                         Some (DU (Z0, Z0, dd1, dh2, dm1, ds1))
                    else Some (DU (Z0, Z0, dd, dh, dm1, ds1))
          else if qltb dm { qnum = Z0; qden = XH }
               then let dh1 = qsub dh { qnum = (Zpos XH); qden = XH } in
                    let dm2 =
                      qadd dm { qnum = (Zpos (XO (XO (XI (XI (XI XH))))));
                        qden = XH }
                    in
                    if qltb dh1 { qnum = Z0; qden = XH }
                    then let dd1 = Z.sub dd (Zpos XH) in
                         let dh2 =
                           qadd dh1 { qnum = (Zpos (XO (XO (XO (XI XH)))));
                             qden = XH }
                         in
                         Some (DU (Z0, Z0, dd1, dh2, dm2, dsx))
                    else Some (DU (Z0, Z0, dd, dh1, dm2, dsx))
               else if qltb dh { qnum = Z0; qden = XH }
                    then let dd1 = Z.sub dd (Zpos XH) in
                         let dh2 =
                           qadd dh { qnum = (Zpos (XO (XO (XO (XI XH)))));
                             qden = XH }
                         in
                         Some (DU (Z0, Z0, dd1, dh2, dm, dsx))
                    else Some (DU (Z0, Z0, dd, dh, dm, dsx))
        | None -> None)
     | None -> None)
  | None -> None

(** val tp_sub : mode -> tp -> tp -> dur option **)

let tp_sub md a b =
  match tp_cmp md b a with
  | Some c ->
    (match c with
     | Gt ->
       (match tp_sub_pos md b a with
        | Some d -> Some (dur_mul d (Zneg XH))
        | None -> None)
     | _ -> tp_sub_pos md a b)
  | None -> None

(** val date_dn : mode -> date -> z **)

let date_dn md = function
| Cal (y, m, dd) -> dn_cal md y m dd
| Ord (y, doy) -> dn_ord md y doy
| Wk (y, w, dd) -> dn_week md y w dd

(** val tod_secs : tod -> q **)

let tod_secs = function
| HMS (h, m, s) ->
  qplus
    (qplus
      (qmult h
        (qz (Zpos (XO (XO (XO (XO (XI (XO (XO (XO (XO (XI (XI XH))))))))))))))
      (qmult m (qz (Zpos (XO (XO (XI (XI (XI XH))))))))) s
| HM (h, m) ->
  qplus
    (qmult h
      (qz (Zpos (XO (XO (XO (XO (XI (XO (XO (XO (XO (XI (XI XH))))))))))))))
    (qmult m (qz (Zpos (XO (XO (XI (XI (XI XH))))))))
| HH h ->
  qmult h
    (qz (Zpos (XO (XO (XO (XO (XI (XO (XO (XO (XO (XI (XI XH)))))))))))))

(** val zone_secs : zone -> z **)

let zone_secs z0 =
  Z.add
    (Z.mul z0.zh (Zpos (XO (XO (XO (XO (XI (XO (XO (XO (XO (XI (XI
      XH))))))))))))) (Z.mul z0.zm (Zpos (XO (XO (XI (XI (XI XH)))))))

(** val instant : mode -> tp -> q **)

let instant md p =
  qminus
    (qplus
      (qz
        (Z.mul (Zpos (XO (XO (XO (XO (XO (XO (XO (XI (XI (XO (XO (XO (XI (XO
          (XI (XO XH))))))))))))))))) (date_dn md p.tdate)))
      (tod_secs p.ttod)) (qz (zone_secs p.tzone))

(** val valid_date : mode -> date -> bool **)

let valid_date md = function
| Cal (y, m, dd) -> valid_cal md y m dd
| Ord (y, doy) -> valid_ord md y doy
| Wk (y, w, dd) -> valid_week md y w dd

(** val qin : z -> q -> z -> bool **)

let qin lo x hi =
  (&&) (qleb (qz lo) x) (qltb x (qz hi))

(** val valid_tod : tod -> bool **)

let valid_tod = function
| HMS (h, m, s) ->
  (&&) ((&&) (qis_int h) (qis_int m))
    ((||)
      ((&&)
        ((&&) (qin Z0 h (Zpos (XO (XO (XO (XI XH))))))
          (qin Z0 m (Zpos (XO (XO (XI (XI (XI XH))))))))
        (qin Z0 s (Zpos (XO (XO (XI (XI (XI XH))))))))
      ((&&)
        ((&&) (qeqb h { qnum = (Zpos (XO (XO (XO (XI XH))))); qden = XH })
          (qeqb m { qnum = Z0; qden = XH }))
        (qeqb s { qnum = Z0; qden = XH })))
| HM (h, m) ->
  (&&) (qis_int h)
    ((||)
      ((&&) (qin Z0 h (Zpos (XO (XO (XO (XI XH))))))
        (qin Z0 m (Zpos (XO (XO (XI (XI (XI XH))))))))
      ((&&) (qeqb h { qnum = (Zpos (XO (XO (XO (XI XH))))); qden = XH })
        (qeqb m { qnum = Z0; qden = XH })))
| HH h ->
  (&&) (qleb { qnum = Z0; qden = XH } h)
    (qleb h { qnum = (Zpos (XO (XO (XO (XI XH))))); qden = XH })

(** val normal_tod : tod -> bool **)

let normal_tod t =
  (&&) (valid_tod t)
    (qltb (tod_hour t) { qnum = (Zpos (XO (XO (XO (XI XH))))); qden = XH })

(** val valid_zone : zone -> bool **)

let valid_zone z0 =
  (&&)
    ((&&)
      ((&&)
        ((&&) (Z.leb (Zneg (XI (XI (XO (XO (XO (XI XH))))))) z0.zh)
          (Z.leb z0.zh (Zpos (XI (XI (XO (XO (XO (XI XH)))))))))
        (Z.leb (Zneg (XI (XI (XO (XI (XI XH)))))) z0.zm))
      (Z.leb z0.zm (Zpos (XI (XI (XO (XI (XI XH))))))))
    (if Z.ltb Z0 z0.zh
     then Z.leb Z0 z0.zm
     else if Z.ltb z0.zh Z0 then Z.leb z0.zm Z0 else true)

(** val valid_tp : mode -> tp -> bool **)

let valid_tp md p =
  (&&) ((&&) (valid_date md p.tdate) (valid_tod p.ttod)) (valid_zone p.tzone)

(** val normal_tp : mode -> tp -> bool **)

let normal_tp md p =
  (&&) ((&&) (valid_date md p.tdate) (normal_tod p.ttod)) (valid_zone p.tzone)

(** val digit_val : char -> z option **)

let digit_val c =
  let n0 = Z.of_nat (nat_of_ascii c) in
  if (&&) (Z.leb (Zpos (XO (XO (XO (XO (XI XH)))))) n0)
       (Z.leb n0 (Zpos (XI (XO (XO (XI (XI XH)))))))
  then Some (Z.sub n0 (Zpos (XO (XO (XO (XO (XI XH)))))))
  else None

(** val two_digits : char -> char -> z option **)

let two_digits a b =
  match digit_val a with
  | Some x ->
    (match digit_val b with
     | Some y -> Some (Z.add (Z.mul (Zpos (XO (XI (XO XH)))) x) y)
     | None -> None)
  | None -> None

(** val sign_of : char -> z option **)

let sign_of c =
  if (=) c '+'
  then Some (Zpos XH)
  else if (=) c '-' then Some (Zneg XH) else None

(** val read_offset : char list -> (z * z) option **)

let read_offset s =
  match list_ascii_of_string s with
  | [] -> None
  | sg :: l ->
    (* If this appears, you're using Ascii internals. Please don't *)
 (fun f c ->
  let n = Char.code c in
  let h i = (n land (1 lsl i)) <> 0 in
  f (h 0) (h 1) (h 2) (h 3) (h 4) (h 5) (h 6) (h 7))
      (fun b0 b1 b2 b3 b4 b5 b6 b7 ->
      if b0
      then (match l with
            | [] -> None
            | a :: l0 ->
              (match l0 with
               | [] -> None
               | b :: l1 ->
                 (match l1 with
                  | [] ->
                    (match sign_of sg with
                     | Some k ->
                       (match two_digits a b with
                        | Some h -> Some ((Z.mul k h), Z0)
                        | None -> None)
                     | None -> None)
                  | col :: l2 ->
                    (match l2 with
                     | [] -> None
                     | c :: l3 ->
                       (match l3 with
                        | [] ->
                          (match sign_of sg with
                           | Some k ->
                             (match two_digits a b with
                              | Some h ->
                                (match two_digits col c with
                                 | Some m -> Some ((Z.mul k h), (Z.mul k m))
                                 | None -> None)
                              | None -> None)
                           | None -> None)
                        | d :: l4 ->
                          (match l4 with
                           | [] ->
                             if (=) col ':'
                             then (match sign_of sg with
                                   | Some k ->
                                     (match two_digits a b with
                                      | Some h ->
                                        (match two_digits c d with
                                         | Some m ->
                                           Some ((Z.mul k h), (Z.mul k m))
                                         | None -> None)
                                      | None -> None)
                                   | None -> None)
                             else None
                           | _ :: _ -> None))))))
      else if b1
           then if b2
                then (match l with
                      | [] -> None
                      | a :: l0 ->
                        (match l0 with
                         | [] -> None
                         | b :: l1 ->
                           (match l1 with
                            | [] ->
                              (match sign_of sg with
                               | Some k ->
                                 (match two_digits a b with
                                  | Some h -> Some ((Z.mul k h), Z0)
                                  | None -> None)
                               | None -> None)
                            | col :: l2 ->
                              (match l2 with
                               | [] -> None
                               | c :: l3 ->
                                 (match l3 with
                                  | [] ->
                                    (match sign_of sg with
                                     | Some k ->
                                       (match two_digits a b with
                                        | Some h ->
                                          (match two_digits col c with
                                           | Some m ->
                                             Some ((Z.mul k h), (Z.mul k m))
                                           | None -> None)
                                        | None -> None)
                                     | None -> None)
                                  | d :: l4 ->
                                    (match l4 with
                                     | [] ->
                                       if (=) col ':'
                                       then (match sign_of sg with
                                             | Some k ->
                                               (match two_digits a b with
                                                | Some h ->
                                                  (match two_digits c d with
                                                   | Some m ->
                                                     Some ((Z.mul k h),
                                                       (Z.mul k m))
                                                   | None -> None)
                                                | None -> None)
                                             | None -> None)
                                       else None
                                     | _ :: _ -> None))))))
                else if b3
                     then if b4
                          then if b5
                               then (match l with
                                     | [] -> None
                                     | a :: l0 ->
                                       (match l0 with
                                        | [] -> None
                                        | b :: l1 ->
                                          (match l1 with
                                           | [] ->
                                             (match sign_of sg with
                                              | Some k ->
                                                (match two_digits a b with
                                                 | Some h ->
                                                   Some ((Z.mul k h), Z0)
                                                 | None -> None)
                                              | None -> None)
                                           | col :: l2 ->
                                             (match l2 with
                                              | [] -> None
                                              | c :: l3 ->
                                                (match l3 with
                                                 | [] ->
                                                   (match sign_of sg with
                                                    | Some k ->
                                                      (match two_digits a b with
                                                       | Some h ->
                                                         (match two_digits
                                                                  col c with
                                                          | Some m ->
                                                            Some
                                                              ((Z.mul k h),
                                                              (Z.mul k m))
                                                          | None -> None)
                                                       | None -> None)
                                                    | None -> None)
                                                 | d :: l4 ->
                                                   (match l4 with
                                                    | [] ->
                                                      if (=) col ':'
                                                      then (match sign_of sg with
                                                            | Some k ->
                                                              (match 
                                                               two_digits a b with
                                                               | Some h ->
                                                                 (match 
                                                                  two_digits
                                                                    c d with
                                                                  | Some m ->
                                                                    Some
                                                                    ((Z.mul k
                                                                    h),
                                                                    (Z.mul k
                                                                    m))
                                                                  | None ->
                                                                    None)
                                                               | None -> None)
                                                            | None -> None)
                                                      else None
                                                    | _ :: _ -> None))))))
                               else if b6
                                    then if b7
                                         then (match l with
                                               | [] -> None
                                               | a :: l0 ->
                                                 (match l0 with
                                                  | [] -> None
                                                  | b :: l1 ->
                                                    (match l1 with
                                                     | [] ->
                                                       (match sign_of sg with
                                                        | Some k ->
                                                          (match two_digits a
                                                                   b with
                                                           | Some h ->
                                                             Some
                                                               ((Z.mul k h),
                                                               Z0)
                                                           | None -> None)
                                                        | None -> None)
                                                     | col :: l2 ->
                                                       (match l2 with
                                                        | [] -> None
                                                        | c :: l3 ->
                                                          (match l3 with
                                                           | [] ->
                                                             (match sign_of sg with
                                                              | Some k ->
                                                                (match 
                                                                 two_digits a
                                                                   b with
                                                                 | Some h ->
                                                                   (match 
                                                                    two_digits
                                                                    col c with
                                                                    | Some m ->
                                                                    Some
                                                                    ((Z.mul k
                                                                    h),
                                                                    (Z.mul k
                                                                    m))
                                                                    | None ->
                                                                    None)
                                                                 | None ->
                                                                   None)
                                                              | None -> None)
                                                           | d :: l4 ->
                                                             (match l4 with
                                                              | [] ->
                                                                if (=) col ':'
                                                                then 
                                                                  (match 
                                                                   sign_of sg with
                                                                   | Some k ->
                                                                    (match 
                                                                    two_digits
                                                                    a b with
                                                                    | Some h ->
                                                                    (match 
                                                                    two_digits
                                                                    c d with
                                                                    | Some m ->
                                                                    Some
                                                                    ((Z.mul k
                                                                    h),
                                                                    (Z.mul k
                                                                    m))
                                                                    | None ->
                                                                    None)
                                                                    | None ->
                                                                    None)
                                                                   | None ->
                                                                    None)
                                                                else None
                                                              | _ :: _ -> None))))))
                                         else (match l with
                                               | [] -> Some (Z0, Z0)
                                               | a :: l0 ->
                                                 (match l0 with
                                                  | [] -> None
                                                  | b :: l1 ->
                                                    (match l1 with
                                                     | [] ->
                                                       (match sign_of sg with
                                                        | Some k ->
                                                          (match two_digits a
                                                                   b with
                                                           | Some h ->
                                                             Some
                                                               ((Z.mul k h),
                                                               Z0)
                                                           | None -> None)
                                                        | None -> None)
                                                     | col :: l2 ->
                                                       (match l2 with
                                                        | [] -> None
                                                        | c :: l3 ->
                                                          (match l3 with
                                                           | [] ->
                                                             (match sign_of sg with
                                                              | Some k ->
                                                                (match 
                                                                 two_digits a
                                                                   b with
                                                                 | Some h ->
                                                                   (match 
                                                                    two_digits
                                                                    col c with
                                                                    | Some m ->
                                                                    Some
                                                                    ((Z.mul k
                                                                    h),
                                                                    (Z.mul k
                                                                    m))
                                                                    | None ->
                                                                    None)
                                                                 | None ->
                                                                   None)
                                                              | None -> None)
                                                           | d :: l4 ->
                                                             (match l4 with
                                                              | [] ->
                                                                if (=) col ':'
                                                                then 
                                                                  (match 
                                                                   sign_of sg with
                                                                   | Some k ->
                                                                    (match 
                                                                    two_digits
                                                                    a b with
                                                                    | Some h ->
                                                                    (match 
                                                                    two_digits
                                                                    c d with
                                                                    | Some m ->
                                                                    Some
                                                                    ((Z.mul k
                                                                    h),
                                                                    (Z.mul k
                                                                    m))
                                                                    | None ->
                                                                    None)
                                                                    | None ->
                                                                    None)
                                                                   | None ->
                                                                    None)
                                                                else None
                                                              | _ :: _ -> None))))))
                                    else (match l with
                                          | [] -> None
                                          | a :: l0 ->
                                            (match l0 with
                                             | [] -> None
                                             | b :: l1 ->
                                               (match l1 with
                                                | [] ->
                                                  (match sign_of sg with
                                                   | Some k ->
                                                     (match two_digits a b with
                                                      | Some h ->
                                                        Some ((Z.mul k h), Z0)
                                                      | None -> None)
                                                   | None -> None)
                                                | col :: l2 ->
                                                  (match l2 with
                                                   | [] -> None
                                                   | c :: l3 ->
                                                     (match l3 with
                                                      | [] ->
                                                        (match sign_of sg with
                                                         | Some k ->
                                                           (match two_digits
                                                                    a b with
                                                            | Some h ->
                                                              (match 
                                                               two_digits col
                                                                 c with
                                                               | Some m ->
                                                                 Some
                                                                   ((Z.mul k
                                                                    h),
                                                                   (Z.mul k m))
                                                               | None -> None)
                                                            | None -> None)
                                                         | None -> None)
                                                      | d :: l4 ->
                                                        (match l4 with
                                                         | [] ->
                                                           if (=) col ':'
                                                           then (match 
                                                                 sign_of sg with
                                                                 | Some k ->
                                                                   (match 
                                                                    two_digits
                                                                    a b with
                                                                    | Some h ->
                                                                    (match 
                                                                    two_digits
                                                                    c d with
                                                                    | Some m ->
                                                                    Some
                                                                    ((Z.mul k
                                                                    h),
                                                                    (Z.mul k
                                                                    m))
                                                                    | None ->
                                                                    None)
                                                                    | None ->
                                                                    None)
                                                                 | None ->
                                                                   None)
                                                           else None
                                                         | _ :: _ -> None))))))
                          else (match l with
                                | [] -> None
                                | a :: l0 ->
                                  (match l0 with
                                   | [] -> None
                                   | b :: l1 ->
                                     (match l1 with
                                      | [] ->
                                        (match sign_of sg with
                                         | Some k ->
                                           (match two_digits a b with
                                            | Some h -> Some ((Z.mul k h), Z0)
                                            | None -> None)
                                         | None -> None)
                                      | col :: l2 ->
                                        (match l2 with
                                         | [] -> None
                                         | c :: l3 ->
                                           (match l3 with
                                            | [] ->
                                              (match sign_of sg with
                                               | Some k ->
                                                 (match two_digits a b with
                                                  | Some h ->
                                                    (match two_digits col c with
                                                     | Some m ->
                                                       Some ((Z.mul k h),
                                                         (Z.mul k m))
                                                     | None -> None)
                                                  | None -> None)
                                               | None -> None)
                                            | d :: l4 ->
                                              (match l4 with
                                               | [] ->
                                                 if (=) col ':'
                                                 then (match sign_of sg with
                                                       | Some k ->
                                                         (match two_digits a b with
                                                          | Some h ->
                                                            (match two_digits
                                                                    c d with
                                                             | Some m ->
                                                               Some
                                                                 ((Z.mul k h),
                                                                 (Z.mul k m))
                                                             | None -> None)
                                                          | None -> None)
                                                       | None -> None)
                                                 else None
                                               | _ :: _ -> None))))))
                     else (match l with
                           | [] -> None
                           | a :: l0 ->
                             (match l0 with
                              | [] -> None
                              | b :: l1 ->
                                (match l1 with
                                 | [] ->
                                   (match sign_of sg with
                                    | Some k ->
                                      (match two_digits a b with
                                       | Some h -> Some ((Z.mul k h), Z0)
                                       | None -> None)
                                    | None -> None)
                                 | col :: l2 ->
                                   (match l2 with
                                    | [] -> None
                                    | c :: l3 ->
                                      (match l3 with
                                       | [] ->
                                         (match sign_of sg with
                                          | Some k ->
                                            (match two_digits a b with
                                             | Some h ->
                                               (match two_digits col c with
                                                | Some m ->
                                                  Some ((Z.mul k h),
                                                    (Z.mul k m))
                                                | None -> None)
                                             | None -> None)
                                          | None -> None)
                                       | d :: l4 ->
                                         (match l4 with
                                          | [] ->
                                            if (=) col ':'
                                            then (match sign_of sg with
                                                  | Some k ->
                                                    (match two_digits a b with
                                                     | Some h ->
                                                       (match two_digits c d with
                                                        | Some m ->
                                                          Some ((Z.mul k h),
                                                            (Z.mul k m))
                                                        | None -> None)
                                                     | None -> None)
                                                  | None -> None)
                                            else None
                                          | _ :: _ -> None))))))
           else (match l with
                 | [] -> None
                 | a :: l0 ->
                   (match l0 with
                    | [] -> None
                    | b :: l1 ->
                      (match l1 with
                       | [] ->
                         (match sign_of sg with
                          | Some k ->
                            (match two_digits a b with
                             | Some h -> Some ((Z.mul k h), Z0)
                             | None -> None)
                          | None -> None)
                       | col :: l2 ->
                         (match l2 with
                          | [] -> None
                          | c :: l3 ->
                            (match l3 with
                             | [] ->
                               (match sign_of sg with
                                | Some k ->
                                  (match two_digits a b with
                                   | Some h ->
                                     (match two_digits col c with
                                      | Some m ->
                                        Some ((Z.mul k h), (Z.mul k m))
                                      | None -> None)
                                   | None -> None)
                                | None -> None)
                             | d :: l4 ->
                               (match l4 with
                                | [] ->
                                  if (=) col ':'
                                  then (match sign_of sg with
                                        | Some k ->
                                          (match two_digits a b with
                                           | Some h ->
                                             (match two_digits c d with
                                              | Some m ->
                                                Some ((Z.mul k h),
                                                  (Z.mul k m))
                                              | None -> None)
                                           | None -> None)
                                        | None -> None)
                                  else None
                                | _ :: _ -> None)))))))
      sg

(** val month_shift1 : mode -> z -> ((z * z) * z) -> (z * z) * z **)

let month_shift1 md sgn0 = function
| (p, d) ->
  let (y, m) = p in
  if Z.ltb Z0 sgn0
  then if Z.eqb m (Zpos (XO (XO (XI XH))))
       then let y' = Z.add y (Zpos XH) in
            let m' = Zpos XH in ((y', m'), (Z.min d (mlen md y' m')))
       else let m' = Z.add m (Zpos XH) in ((y, m'), (Z.min d (mlen md y m')))
  else if Z.eqb m (Zpos XH)
       then let y' = Z.sub y (Zpos XH) in
            let m' = Zpos (XO (XO (XI XH))) in
            ((y', m'), (Z.min d (mlen md y' m')))
       else let m' = Z.sub m (Zpos XH) in ((y, m'), (Z.min d (mlen md y m')))

(** val month_shift : mode -> z -> ((z * z) * z) -> (z * z) * z **)

let month_shift md n0 c =
  Coq_Pos.iter (month_shift1 md n0) c (Z.to_pos (Z.abs n0))

(** val year_of_dn : mode -> z -> z **)

let year_of_dn md n0 =
  let y0 =
    match md with
    | G ->
      Z.div (Z.mul n0 (Zpos (XO (XO (XO (XO (XI (XO (XO (XI XH))))))))))
        (Zpos (XI (XO (XO (XO (XI (XI (XO (XI (XO (XI (XO (XI (XI (XI (XO (XO
        (XO XH))))))))))))))))))
    | D360 -> Z.div n0 (Zpos (XO (XO (XO (XI (XO (XI (XI (XO XH)))))))))
    | D365 -> Z.div n0 (Zpos (XI (XO (XI (XI (XO (XI (XI (XO XH)))))))))
    | D366 -> Z.div n0 (Zpos (XO (XI (XI (XI (XO (XI (XI (XO XH)))))))))
  in
  let up = fun y ->
    if Z.leb (dby md (Z.add y (Zpos XH))) n0 then Z.add y (Zpos XH) else y
  in
  let dn = fun y -> if Z.ltb n0 (dby md y) then Z.sub y (Zpos XH) else y in
  dn (dn (up (up y0)))

(** val ord_of_dn : mode -> z -> z * z **)

let ord_of_dn md n0 =
  let y = year_of_dn md n0 in (y, (Z.add (Z.sub n0 (dby md y)) (Zpos XH)))

(** val month_of_doy : mode -> z -> nat -> z -> z -> z * z **)

let rec month_of_doy md y k m doy =
  match k with
  | O -> (m, (Z.sub doy (cum md y (Z.sub m (Zpos XH)))))
  | S k' ->
    if Z.leb doy (cum md y m)
    then (m, (Z.sub doy (cum md y (Z.sub m (Zpos XH)))))
    else month_of_doy md y k' (Z.add m (Zpos XH)) doy

(** val cal_of_dn : mode -> z -> (z * z) * z **)

let cal_of_dn md n0 =
  let (y, doy) = ord_of_dn md n0 in
  let (m, d) =
    month_of_doy md y (S (S (S (S (S (S (S (S (S (S (S O))))))))))) (Zpos XH)
      doy
  in
  ((y, m), d)

(** val week_of_dn : mode -> z -> (z * z) * z **)

let week_of_dn md n0 =
  let y = year_of_dn md n0 in
  let wy =
    if Z.leb (wys md (Z.add y (Zpos XH))) n0
    then Z.add y (Zpos XH)
    else if Z.ltb n0 (wys md y) then Z.sub y (Zpos XH) else y
  in
  let k = Z.sub n0 (wys md wy) in
  ((wy, (Z.add (Z.div k (Zpos (XI (XI XH)))) (Zpos XH))),
  (Z.add (Z.modulo k (Zpos (XI (XI XH)))) (Zpos XH)))

type dayspec = { ds_dow : z option; ds_dom : z option; ds_doy : z option;
                 ds_week : z option }

(** val opt_match : z option -> z -> bool **)

let opt_match o v =
  match o with
  | Some x -> Z.eqb x v
  | None -> true

(** val day_matches : mode -> dayspec -> z -> bool **)

let day_matches md s n0 =
  let (_, dom) = cal_of_dn md n0 in
  let (_, doy) = ord_of_dn md n0 in
  let (p, dow) = week_of_dn md n0 in
  let (_, w) = p in
  (&&)
    ((&&) ((&&) (opt_match s.ds_dow dow) (opt_match s.ds_dom dom))
      (opt_match s.ds_doy doy)) (opt_match s.ds_week w)

(** val next_day : mode -> dayspec -> z -> z -> z option **)

let next_day md s n0 horizon =
  snd
    (Coq_Pos.iter (fun st ->
      match snd st with
      | Some _ -> st
      | None ->
        if day_matches md s (fst st)
        then ((fst st), (Some (fst st)))
        else ((Z.add (fst st) (Zpos XH)), None)) (n0, None)
      (Z.to_pos horizon))

type todspec = { ts_h : z option; ts_m : z option; ts_s : z option }

(** val has_time : todspec -> bool **)

let has_time t =
  match t.ts_h with
  | Some _ -> true
  | None ->
    (match t.ts_m with
     | Some _ -> true
     | None -> (match t.ts_s with
                | Some _ -> true
                | None -> false))

(** val sod_matches : todspec -> z -> bool **)

let sod_matches t x =
  let h =
    Z.div x (Zpos (XO (XO (XO (XO (XI (XO (XO (XO (XO (XI (XI XH))))))))))))
  in
  let m =
    Z.modulo (Z.div x (Zpos (XO (XO (XI (XI (XI XH))))))) (Zpos (XO (XO (XI
      (XI (XI XH))))))
  in
  let s = Z.modulo x (Zpos (XO (XO (XI (XI (XI XH)))))) in
  (match t.ts_h with
   | Some a ->
     (match t.ts_m with
      | Some b ->
        (match t.ts_s with
         | Some c -> (&&) ((&&) (Z.eqb h a) (Z.eqb m b)) (Z.eqb s c)
         | None -> (&&) ((&&) (Z.eqb h a) (Z.eqb m b)) (Z.eqb s Z0))
      | None ->
        (match t.ts_s with
         | Some c -> (&&) ((&&) (Z.eqb h a) (Z.eqb m Z0)) (Z.eqb s c)
         | None -> (&&) ((&&) (Z.eqb h a) (Z.eqb m Z0)) (Z.eqb s Z0)))
   | None ->
     (match t.ts_m with
      | Some b ->
        (match t.ts_s with
         | Some c -> (&&) (Z.eqb m b) (Z.eqb s c)
         | None -> (&&) (Z.eqb m b) (Z.eqb s Z0))
      | None -> (match t.ts_s with
                 | Some c -> Z.eqb s c
                 | None -> true)))

(** val next_sod : todspec -> z -> z option **)

let next_sod t sod0 =
  snd
    (Coq_Pos.iter (fun st ->
      match snd st with
      | Some _ -> st
      | None ->
        if Z.leb (Zpos (XO (XO (XO (XO (XO (XO (XO (XI (XI (XO (XO (XO (XI
             (XO (XI (XO XH))))))))))))))))) (fst st)
        then st
        else if sod_matches t (fst st)
             then ((fst st), (Some (fst st)))
             else ((Z.add (fst st) (Zpos XH)), None)) (sod0, None) (XI (XO
      (XO (XO (XO (XO (XO (XI (XI (XO (XO (XO (XI (XO (XI (XO
      XH)))))))))))))))))

(** val next_match :
    mode -> dayspec -> todspec -> z -> z -> z -> (z * z) option **)

let next_match md d t n0 sod0 horizon =
  if has_time t
  then (match if day_matches md d n0 then next_sod t sod0 else None with
        | Some x -> Some (n0, x)
        | None ->
          (match next_day md d (Z.add n0 (Zpos XH)) horizon with
           | Some n1 ->
             (match next_sod t Z0 with
              | Some x -> Some (n1, x)
              | None -> None)
           | None -> None))
  else (match next_day md d n0 horizon with
        | Some n1 -> Some (n1, sod0)
        | None -> None)

(** val utc_offset_seconds : z -> z -> z -> z -> z **)

let utc_offset_seconds timezone altzone daylight isdst =
  if (&&) (Z.eqb isdst (Zpos XH)) (negb (Z.eqb daylight Z0))
  then Z.opp altzone
  else Z.opp timezone

(** val split_offset : z -> z * z **)

let split_offset off =
  let sign = if Z.ltb off Z0 then Zneg XH else Zpos XH in
  let minutes =
    Z.modulo (Z.div off (Zpos (XO (XO (XI (XI (XI XH)))))))
      (Z.mul sign (Zpos (XO (XO (XI (XI (XI XH)))))))
  in
  let hours =
    Z.mul sign
      (Z.div (Z.mul sign off) (Zpos (XO (XO (XO (XO (XI (XO (XO (XO (XO (XI
        (XI XH)))))))))))))
  in
  (hours, minutes)

(** val get_local_time_zone : z -> z -> z -> z -> z * z **)

let get_local_time_zone timezone altzone daylight isdst =
  split_offset (utc_offset_seconds timezone altzone daylight isdst)

(** val pad2 : z -> char list **)

let pad2 n0 =
  if Z.ltb n0 (Zpos (XO (XI (XO XH))))
  then append ('0'::[]) (show_Z n0)
  else show_Z n0

type tzfmt =
| TzNormal
| TzReduced
| TzExtended

(** val format_offset : tzfmt -> (z * z) -> char list **)

let format_offset mode0 = function
| (h, m) ->
  if (&&) (Z.eqb h Z0) (Z.eqb m Z0)
  then 'Z'::[]
  else let mode1 =
         match mode0 with
         | TzReduced -> if Z.eqb m Z0 then TzReduced else TzNormal
         | _ -> mode0
       in
       let sign = if (||) (Z.ltb h Z0) (Z.ltb m Z0) then '-'::[] else '+'::[]
       in
       (match mode1 with
        | TzNormal -> append sign (append (pad2 (Z.abs h)) (pad2 (Z.abs m)))
        | TzReduced -> append sign (pad2 (Z.abs h))
        | TzExtended ->
          append sign
            (append (pad2 (Z.abs h)) (append (':'::[]) (pad2 (Z.abs m)))))

(** val get_local_time_zone_format :
    tzfmt -> z -> z -> z -> z -> char list **)

let get_local_time_zone_format mode0 timezone altzone daylight isdst =
  format_offset mode0 (get_local_time_zone timezone altzone daylight isdst)

(** val unix_ref : tp **)

let unix_ref =
  { tdate = (Cal ((Zpos (XO (XI (XO (XO (XI (XI (XO (XI (XI (XI
    XH))))))))))), (Zpos XH), (Zpos XH))); ttod = (HMS ({ qnum = Z0; qden =
    XH }, { qnum = Z0; qden = XH }, { qnum = Z0; qden = XH })); tzone =
    { zh = Z0; zm = Z0 } }

(** val from_unix : mode -> q -> (z * z) option -> tp option **)

let from_unix md n0 local =
  let ref =
    match local with
    | Some p -> let (h, m) = p in to_time_zone md unix_ref { zh = h; zm = m }
    | None -> Some unix_ref
  in
  (match ref with
   | Some r ->
     if qeqb n0 { qnum = Z0; qden = XH }
     then Some r
     else tp_add md r (DU (Z0, Z0, Z0, { qnum = Z0; qden = XH }, { qnum = Z0;
            qden = XH }, n0))
   | None -> None)

(** val seconds_since_unix_epoch : mode -> tp -> z option **)

let seconds_since_unix_epoch md p =
  match tp_sub md p unix_ref with
  | Some d ->
    let (days, secs) = days_and_seconds md d in
    Some
    (qtrunc
      (qplus
        (qz
          (Z.mul (Zpos (XO (XO (XO (XO (XO (XO (XO (XI (XI (XO (XO (XO (XI
            (XO (XI (XO XH))))))))))))))))) days)) secs))
  | None -> None

type recur = { r_reps : z option; r_start : tp option; r_dur : dur option;
               r_end : tp option; r_second : tp option; r_fmt : z }

type 'a res =
| Ok of 'a
| Err

(** val tp_ltb : mode -> tp -> tp -> bool option **)

let tp_ltb md a b =
  match tp_cmp md a b with
  | Some c -> Some (cmp_op (Zpos XH) c)
  | None -> None

(** val tp_eqb : mode -> tp -> tp -> bool option **)

let tp_eqb md a b =
  match tp_cmp md a b with
  | Some c -> Some (cmp_op Z0 c)
  | None -> None

(** val tp_gtb : mode -> tp -> tp -> bool option **)

let tp_gtb md a b =
  match tp_cmp md a b with
  | Some c -> Some (cmp_op (Zpos (XI XH)) c)
  | None -> None

(** val tp_leb : mode -> tp -> tp -> bool option **)

let tp_leb md a b =
  match tp_cmp md a b with
  | Some c -> Some (cmp_op (Zpos (XO XH)) c)
  | None -> None

(** val zopt_eqb : z option -> z -> bool **)

let zopt_eqb a b =
  match a with
  | Some x -> Z.eqb x b
  | None -> false

(** val rec_make :
    mode -> z option -> tp option -> dur option -> tp option -> recur res **)

let rec_make md reps start d endp =
  if match reps with
     | Some n0 -> Z.leb n0 Z0
     | None -> false
  then Err
  else if match d with
          | Some x -> dur_ltb md x dzero
          | None -> false
       then Err
       else (match d with
             | Some dd ->
               (match start with
                | Some s ->
                  (match endp with
                   | Some _ -> Err
                   | None ->
                     if (||) (zopt_eqb reps (Zpos XH)) (dur_eqb dd dzero)
                     then Ok { r_reps = (Some (Zpos XH)); r_start = start;
                            r_dur = None; r_end = start; r_second = None;
                            r_fmt = (Zpos (XI XH)) }
                     else (match reps with
                           | Some n0 ->
                             (match tp_add md s
                                      (dur_mul dd (Z.sub n0 (Zpos XH))) with
                              | Some e' ->
                                Ok { r_reps = reps; r_start = start; r_dur =
                                  d; r_end = (Some e'); r_second = None;
                                  r_fmt = (Zpos (XI XH)) }
                              | None -> Err)
                           | None ->
                             Ok { r_reps = None; r_start = start; r_dur = d;
                               r_end = None; r_second = None; r_fmt = (Zpos
                               (XI XH)) }))
                | None ->
                  (match endp with
                   | Some e ->
                     if (||) (zopt_eqb reps (Zpos XH)) (dur_eqb dd dzero)
                     then Ok { r_reps = (Some (Zpos XH)); r_start = endp;
                            r_dur = None; r_end = endp; r_second = None;
                            r_fmt = (Zpos (XO (XO XH))) }
                     else (match reps with
                           | Some n0 ->
                             (match tp_sub_dur md e
                                      (dur_mul dd (Z.sub n0 (Zpos XH))) with
                              | Some s' ->
                                Ok { r_reps = reps; r_start = (Some s');
                                  r_dur = d; r_end = endp; r_second = None;
                                  r_fmt = (Zpos (XO (XO XH))) }
                              | None -> Err)
                           | None ->
                             Ok { r_reps = None; r_start = None; r_dur = d;
                               r_end = endp; r_second = None; r_fmt = (Zpos
                               (XO (XO XH))) })
                   | None -> Err))
             | None ->
               if zopt_eqb reps (Zpos XH)
               then Ok { r_reps = reps; r_start = start; r_dur = None;
                      r_end = start; r_second = start; r_fmt = (Zpos XH) }
               else (match start with
                     | Some s ->
                       (match endp with
                        | Some e ->
                          (match tp_cmp md s e with
                           | Some c ->
                             (match c with
                              | Eq ->
                                Ok { r_reps = (Some (Zpos XH)); r_start =
                                  start; r_dur = None; r_end = endp;
                                  r_second = endp; r_fmt = (Zpos XH) }
                              | Lt ->
                                (match tp_sub md e s with
                                 | Some dd ->
                                   (match reps with
                                    | Some n0 ->
                                      (match tp_add md s
                                               (dur_mul dd
                                                 (Z.sub n0 (Zpos XH))) with
                                       | Some e' ->
                                         Ok { r_reps = reps; r_start = start;
                                           r_dur = (Some dd); r_end = (Some
                                           e'); r_second = endp; r_fmt =
                                           (Zpos XH) }
                                       | None -> Err)
                                    | None ->
                                      Ok { r_reps = None; r_start = start;
                                        r_dur = (Some dd); r_end = None;
                                        r_second = endp; r_fmt = (Zpos XH) })
                                 | None -> Err)
                              | Gt -> Err)
                           | None -> Err)
                        | None -> Err)
                     | None -> Err))

(** val in_bounds : mode -> recur -> tp option -> bool option **)

let in_bounds md r = function
| Some t ->
  (match match r.r_start with
         | Some s -> tp_ltb md t s
         | None -> Some false with
   | Some b ->
     if b
     then Some false
     else (match match r.r_end with
                 | Some e -> tp_gtb md t e
                 | None -> Some false with
           | Some b0 -> if b0 then Some false else Some true
           | None -> None)
   | None -> None)
| None -> Some false

(** val step_point : mode -> recur -> bool -> tp option -> tp option **)

let step_point md r fwd p =
  if zopt_eqb r.r_reps (Zpos XH)
  then None
  else (match p with
        | Some t ->
          (match r.r_dur with
           | Some d ->
             let q0 = if fwd then tp_add md t d else tp_sub_dur md t d in
             (match in_bounds md r q0 with
              | Some b -> if b then q0 else None
              | None -> None)
           | None -> None)
        | None -> None)

(** val get_next : mode -> recur -> tp option -> tp option **)

let get_next md r p =
  step_point md r true p

(** val get_prev : mode -> recur -> tp option -> tp option **)

let get_prev md r p =
  step_point md r false p

(** val dur_falsy : dur option -> bool **)

let dur_falsy = function
| Some x -> negb (dur_bool x)
| None -> true

(** val iter_from : mode -> recur -> bool -> nat -> tp option -> tp list **)

let rec iter_from md r fwd k p =
  match k with
  | O -> []
  | S k' ->
    (match p with
     | Some t ->
       (match in_bounds md r p with
        | Some b ->
          if b
          then t :: (iter_from md r fwd k' (step_point md r fwd p))
          else []
        | None -> [])
     | None -> [])

(** val iter_take : mode -> recur -> nat -> tp list **)

let iter_take md r k =
  match r.r_start with
  | Some _ ->
    let p = r.r_start in
    let fwd = true in
    if (||) (zopt_eqb r.r_reps (Zpos XH)) (dur_falsy r.r_dur)
    then (match k with
          | O -> []
          | S _ ->
            (match p with
             | Some t ->
               (match in_bounds md r (Some t) with
                | Some b -> if b then t :: [] else []
                | None -> [])
             | None -> []))
    else iter_from md r fwd k p
  | None ->
    let p = r.r_end in
    let fwd = false in
    if (||) (zopt_eqb r.r_reps (Zpos XH)) (dur_falsy r.r_dur)
    then (match k with
          | O -> []
          | S _ ->
            (match p with
             | Some t ->
               (match in_bounds md r (Some t) with
                | Some b -> if b then t :: [] else []
                | None -> [])
             | None -> []))
    else iter_from md r fwd k p

(** val rec_getitem : mode -> recur -> z -> tp option **)

let rec_getitem md r i =
  if Z.ltb i Z0
  then None
  else nth_error (iter_take md r (S (Z.to_nat i))) (Z.to_nat i)

(** val valid_scan :
    mode -> recur -> bool -> tp -> nat -> tp option -> bool option **)

let rec valid_scan md r fwd t fuel p =
  match fuel with
  | O -> None
  | S f ->
    (match p with
     | Some x ->
       (match in_bounds md r p with
        | Some b ->
          if b
          then (match tp_cmp md x t with
                | Some c ->
                  (match c with
                   | Eq -> Some true
                   | _ ->
                     if match r.r_start with
                        | Some _ -> false
                        | None -> cmp_op (Zpos XH) c
                     then Some false
                     else if match r.r_end with
                             | Some _ -> false
                             | None -> cmp_op (Zpos (XI XH)) c
                          then Some false
                          else valid_scan md r fwd t f (step_point md r fwd p))
                | None -> None)
          else Some false
        | None -> None)
     | None -> Some false)

(** val get_is_valid : mode -> recur -> tp -> nat -> bool option **)

let get_is_valid md r t fuel =
  match in_bounds md r (Some t) with
  | Some b ->
    if b
    then (match r.r_start with
          | Some _ ->
            let p = r.r_start in
            let fwd = true in
            if (||) (zopt_eqb r.r_reps (Zpos XH)) (dur_falsy r.r_dur)
            then (match p with
                  | Some x ->
                    (match in_bounds md r (Some x) with
                     | Some b0 -> if b0 then tp_eqb md x t else Some false
                     | None -> Some false)
                  | None -> Some false)
            else valid_scan md r fwd t fuel p
          | None ->
            let p = r.r_end in
            let fwd = false in
            if (||) (zopt_eqb r.r_reps (Zpos XH)) (dur_falsy r.r_dur)
            then (match p with
                  | Some x ->
                    (match in_bounds md r (Some x) with
                     | Some b0 -> if b0 then tp_eqb md x t else Some false
                     | None -> Some false)
                  | None -> Some false)
            else valid_scan md r fwd t fuel p)
    else Some false
  | None -> None

(** val first_after_scan :
    mode -> recur -> tp -> nat -> tp option -> tp option option **)

let rec first_after_scan md r t fuel cur =
  match fuel with
  | O -> None
  | S f ->
    (match cur with
     | Some c ->
       (match tp_leb md c t with
        | Some b ->
          if b
          then first_after_scan md r t f (get_next md r cur)
          else Some cur
        | None -> None)
     | None -> Some None)

(** val get_first_after : mode -> recur -> tp -> nat -> tp option option **)

let get_first_after md r t fuel =
  match r.r_start with
  | Some s ->
    (match in_bounds md r (Some t) with
     | Some b ->
       if b
       then (match r.r_dur with
             | Some d ->
               if is_exact d
               then (match tp_sub md t s with
                     | Some delta ->
                       let x = get_seconds md delta in
                       let l = get_seconds md d in
                       if qeqb l { qnum = Z0; qden = XH }
                       then None
                       else let qf = qfloor (qdiv x l) in
                            let since = qred (qminus x (qmult (qz qf) l)) in
                            let nxt =
                              tp_add md t
                                (dur_sub d
                                  (dur_make Z0 Z0 Z0 Z0 { qnum = Z0; qden =
                                    XH } { qnum = Z0; qden = XH }
                                    (qz (qfloor since))))
                            in
                            (match in_bounds md r nxt with
                             | Some b0 -> if b0 then Some nxt else Some None
                             | None -> None)
                     | None -> None)
               else first_after_scan md r t fuel r.r_start
             | None -> first_after_scan md r t fuel r.r_start)
       else (match tp_ltb md t s with
             | Some b0 -> if b0 then Some (Some s) else Some None
             | None -> None)
     | None -> None)
  | None -> None

(** val opt_add : mode -> tp option -> dur -> tp option option **)

let opt_add md p d =
  match p with
  | Some t ->
    (match tp_add md t d with
     | Some q0 -> Some (Some q0)
     | None -> None)
  | None -> None

(** val rec_add : mode -> recur -> dur -> recur res **)

let rec_add md r d =
  if Z.eqb r.r_fmt (Zpos XH)
  then (match opt_add md r.r_start d with
        | Some s ->
          (match opt_add md r.r_second d with
           | Some e -> rec_make md r.r_reps s None e
           | None -> Err)
        | None -> Err)
  else if Z.eqb r.r_fmt (Zpos (XI XH))
       then (match opt_add md r.r_start d with
             | Some s -> rec_make md r.r_reps s r.r_dur None
             | None -> Err)
       else (match opt_add md r.r_end d with
             | Some e ->
               rec_make md r.r_reps
                 (match r.r_dur with
                  | Some _ -> None
                  | None -> e) r.r_dur e
             | None -> Err)

(** val rec_sub : mode -> recur -> dur -> recur res **)

let rec_sub md r d =
  rec_add md r (dur_mul d (Zneg XH))

(** val opt_tp_eqb : mode -> tp option -> tp option -> bool **)

let opt_tp_eqb md a b =
  match a with
  | Some x ->
    (match b with
     | Some y -> (match tp_eqb md x y with
                  | Some c -> c
                  | None -> false)
     | None -> false)
  | None -> (match b with
             | Some _ -> false
             | None -> true)

(** val opt_dur_eqb : dur option -> dur option -> bool **)

let opt_dur_eqb a b =
  match a with
  | Some x -> (match b with
               | Some y -> dur_eqb x y
               | None -> false)
  | None -> (match b with
             | Some _ -> false
             | None -> true)

(** val opt_z_eqb : z option -> z option -> bool **)

let opt_z_eqb a b =
  match a with
  | Some x -> (match b with
               | Some y -> Z.eqb x y
               | None -> false)
  | None -> (match b with
             | Some _ -> false
             | None -> true)

(** val rec_eqb : mode -> recur -> recur -> bool **)

let rec_eqb md a b =
  (&&)
    ((&&)
      ((&&) (opt_z_eqb a.r_reps b.r_reps) (opt_tp_eqb md a.r_start b.r_start))
      (opt_tp_eqb md a.r_end b.r_end)) (opt_dur_eqb a.r_dur b.r_dur)

type trunc = { t_hour : q option; t_min : q option; t_sec : q option;
               t_dow : z option; t_dom : z option; t_doy : z option;
               t_week : z option; t_zone : zone option }

type tres =
| TOk of tp
| THang
| TErr

(** val to_hms : tp -> tp **)

let to_hms p =
  let (p0, s) = get_hour_minute_second p.ttod in
  let (h, m) = p0 in with_tod p (HMS (h, m, s))

(** val step_until :
    mode -> (tp -> q option) -> (tp -> tp) -> q -> z -> tp -> tres **)

let step_until md get bump target bound p =
  let cond = fun x ->
    match get x with
    | Some v -> negb (qeqb v target)
    | None -> false
  in
  let r = loop cond (fun x -> tick_over md (bump x)) bound p in
  if cond r then THang else TOk r

(** val tod_sec : tp -> q option **)

let tod_sec p =
  match p.ttod with
  | HMS (_, _, s) -> Some s
  | _ -> None

(** val tod_min : tp -> q option **)

let tod_min p =
  match p.ttod with
  | HMS (_, m, _) -> Some m
  | HM (_, m) -> Some m
  | HH _ -> None

(** val tod_hr : tp -> q option **)

let tod_hr p =
  Some (tod_hour p.ttod)

(** val bump_sec : tp -> tp **)

let bump_sec p =
  match p.ttod with
  | HMS (h, m, s) ->
    with_tod p (HMS (h, m, (qadd s { qnum = (Zpos XH); qden = XH })))
  | _ -> p

(** val bump_min : tp -> tp **)

let bump_min p =
  match p.ttod with
  | HMS (h, m, s) ->
    with_tod p (HMS (h, (qadd m { qnum = (Zpos XH); qden = XH }), s))
  | HM (h, m) -> with_tod p (HM (h, (qadd m { qnum = (Zpos XH); qden = XH })))
  | HH _ -> p

(** val bump_hr : tp -> tp **)

let bump_hr p =
  with_tod p (add_hours p.ttod { qnum = (Zpos XH); qden = XH })

(** val date_field : z -> tp -> q option **)

let date_field k p =
  match p.tdate with
  | Cal (_, _, d) ->
    (match k with
     | Zpos p0 -> (match p0 with
                   | XH -> Some (qz d)
                   | _ -> None)
     | _ -> None)
  | Ord (_, d) ->
    (match k with
     | Zpos p0 ->
       (match p0 with
        | XO p1 -> (match p1 with
                    | XH -> Some (qz d)
                    | _ -> None)
        | _ -> None)
     | _ -> None)
  | Wk (_, w, d) ->
    (match k with
     | Z0 -> Some (qz d)
     | Zpos p0 ->
       (match p0 with
        | XI p1 -> (match p1 with
                    | XH -> Some (qz w)
                    | _ -> None)
        | _ -> None)
     | Zneg _ -> None)

(** val bump_date : z -> tp -> tp **)

let bump_date k p =
  match p.tdate with
  | Cal (y, m, d) ->
    (match k with
     | Zpos p0 ->
       (match p0 with
        | XH -> with_date p (Cal (y, m, (Z.add d (Zpos XH))))
        | _ -> p)
     | _ -> p)
  | Ord (y, d) ->
    (match k with
     | Zpos p0 ->
       (match p0 with
        | XO p1 ->
          (match p1 with
           | XH -> with_date p (Ord (y, (Z.add d (Zpos XH))))
           | _ -> p)
        | _ -> p)
     | _ -> p)
  | Wk (y, w, d) ->
    (match k with
     | Z0 -> with_date p (Wk (y, w, (Z.add d (Zpos XH))))
     | Zpos p0 ->
       (match p0 with
        | XI p1 ->
          (match p1 with
           | XH -> with_date p (Wk (y, (Z.add w (Zpos XH)), d))
           | _ -> p)
        | _ -> p)
     | Zneg _ -> p)

(** val tbind : tres -> (tp -> tres) -> tres **)

let tbind r f =
  match r with
  | TOk p -> f p
  | _ -> r

(** val conv : date option -> tp -> tres **)

let conv o p =
  match o with
  | Some d -> TOk (with_date p d)
  | None -> TErr

(** val add_truncated : mode -> tp -> trunc -> tres **)

let add_truncated md p t =
  let minute =
    match t.t_hour with
    | Some _ ->
      (match t.t_min with
       | Some q0 -> Some q0
       | None -> Some { qnum = Z0; qden = XH })
    | None -> t.t_min
  in
  let second =
    match t.t_sec with
    | Some s -> Some s
    | None ->
      (match t.t_hour with
       | Some _ -> Some { qnum = Z0; qden = XH }
       | None ->
         (match minute with
          | Some _ -> Some { qnum = Z0; qden = XH }
          | None -> None))
  in
  let p0 = normalised md p in
  let p1 =
    match second with
    | Some _ -> to_hms p0
    | None -> (match minute with
               | Some _ -> to_hms p0
               | None -> p0)
  in
  tbind
    (match second with
     | Some s ->
       step_until md tod_sec bump_sec s (Zpos (XI (XO (XI (XI (XI XH)))))) p1
     | None -> TOk p1) (fun p2 ->
    tbind
      (match minute with
       | Some m ->
         step_until md tod_min bump_min m (Zpos (XI (XO (XI (XI (XI XH))))))
           p2
       | None -> TOk p2) (fun p3 ->
      tbind
        (match t.t_hour with
         | Some h ->
           step_until md tod_hr bump_hr h (Zpos (XI (XO (XO (XI XH))))) p3
         | None -> TOk p3) (fun p4 ->
        tbind
          (match t.t_dow with
           | Some d ->
             tbind (conv (to_week_date md p4.tdate) p4)
               (step_until md (date_field Z0) (bump_date Z0) (qz d) (Zpos (XO
                 (XO (XO XH)))))
           | None -> TOk p4) (fun p5 ->
          tbind
            (match t.t_dom with
             | Some d ->
               tbind (conv (to_calendar_date md p5.tdate) p5)
                 (step_until md (date_field (Zpos XH)) (bump_date (Zpos XH))
                   (qz d) (Zpos (XI (XI (XI (XI (XI XH)))))))
             | None -> TOk p5) (fun p6 ->
            tbind
              (match t.t_doy with
               | Some d ->
                 tbind (conv (to_ordinal_date md p6.tdate) p6)
                   (step_until md (date_field (Zpos (XO XH)))
                     (bump_date (Zpos (XO XH))) (qz d) (Zpos (XI (XO (XO (XO
                     (XI (XI (XI (XO (XI (XI (XO XH)))))))))))))
               | None -> TOk p6) (fun p7 ->
              match t.t_week with
              | Some w ->
                tbind (conv (to_week_date md p7.tdate) p7)
                  (step_until md (date_field (Zpos (XI XH)))
                    (bump_date (Zpos (XI XH))) (qz w) (Zpos (XO (XO (XI (XI
                    (XI (XO (XI (XI (XI (XO XH))))))))))))
              | None -> TOk p7))))))

(** val tp_add_trunc : mode -> trunc -> tp -> tres **)

let tp_add_trunc md t p =
  let aligned =
    match t.t_zone with
    | Some z0 -> to_time_zone md p z0
    | None -> Some p
  in
  (match aligned with
   | Some p1 ->
     tbind (add_truncated md p1 t) (fun r ->
       match to_time_zone md r p.tzone with
       | Some q0 -> TOk q0
       | None -> TErr)
   | None -> TErr)

type 'a rd = char list list -> ('a * char list list) option

(** val ret : 'a1 -> 'a1 rd **)

let ret a ts =
  Some (a, ts)

(** val bind : 'a1 rd -> ('a1 -> 'a2 rd) -> 'a2 rd **)

let bind m f ts =
  match m ts with
  | Some p -> let (a, r) = p in f a r
  | None -> None

(** val tok : char list rd **)

let tok = function
| [] -> None
| t :: r -> Some (t, r)

(** val rZ : z rd **)

let rZ =
  bind tok (fun t ts ->
    match read_Z t with
    | Some z0 -> Some (z0, ts)
    | None -> None)

(** val rQ : q rd **)

let rQ =
  bind tok (fun t ts ->
    match read_Q t with
    | Some z0 -> Some (z0, ts)
    | None -> None)

(** val rMode : mode rd **)

let rMode =
  bind tok (fun t ->
    if eqb0 t ('G'::[])
    then ret G
    else if eqb0 t ('3'::('6'::('0'::[])))
         then ret D360
         else if eqb0 t ('3'::('6'::('5'::[])))
              then ret D365
              else if eqb0 t ('3'::('6'::('6'::[])))
                   then ret D366
                   else (fun _ -> None))

(** val rDate : date rd **)

let rDate =
  bind tok (fun t ->
    if eqb0 t ('C'::[])
    then bind rZ (fun y ->
           bind rZ (fun m -> bind rZ (fun d -> ret (Cal (y, m, d)))))
    else if eqb0 t ('O'::[])
         then bind rZ (fun y -> bind rZ (fun d -> ret (Ord (y, d))))
         else if eqb0 t ('W'::[])
              then bind rZ (fun y ->
                     bind rZ (fun w -> bind rZ (fun d -> ret (Wk (y, w, d)))))
              else (fun _ -> None))

(** val rTod : tod rd **)

let rTod =
  bind tok (fun t ->
    if eqb0 t ('S'::[])
    then bind rQ (fun h ->
           bind rQ (fun m -> bind rQ (fun s -> ret (HMS (h, m, s)))))
    else if eqb0 t ('M'::[])
         then bind rQ (fun h -> bind rQ (fun m -> ret (HM (h, m))))
         else if eqb0 t ('H'::[])
              then bind rQ (fun h -> ret (HH h))
              else (fun _ -> None))

(** val rZone : zone rd **)

let rZone =
  bind rZ (fun h -> bind rZ (fun m -> ret { zh = h; zm = m }))

(** val rTp : tp rd **)

let rTp =
  bind rDate (fun d ->
    bind rTod (fun t ->
      bind rZone (fun z0 -> ret { tdate = d; ttod = t; tzone = z0 })))

(** val rDur : dur rd **)

let rDur =
  bind tok (fun t ->
    if eqb0 t ('D'::('W'::[]))
    then bind rZ (fun w -> ret (DW w))
    else if eqb0 t ('D'::('U'::[]))
         then bind rZ (fun y ->
                bind rZ (fun mo ->
                  bind rZ (fun d ->
                    bind rQ (fun h ->
                      bind rQ (fun mi ->
                        bind rQ (fun s -> ret (DU (y, mo, d, h, mi, s))))))))
         else (fun _ -> None))

(** val sh_bool : bool -> char list **)

let sh_bool = function
| true -> '1'::[]
| false -> '0'::[]

(** val sh_date : date -> char list **)

let sh_date = function
| Cal (y, m, dd) ->
  unwords (('C'::[]) :: ((show_Z y) :: ((show_Z m) :: ((show_Z dd) :: []))))
| Ord (y, doy) -> unwords (('O'::[]) :: ((show_Z y) :: ((show_Z doy) :: [])))
| Wk (y, w, dd) ->
  unwords (('W'::[]) :: ((show_Z y) :: ((show_Z w) :: ((show_Z dd) :: []))))

(** val sh_tod : tod -> char list **)

let sh_tod = function
| HMS (h, m, s) ->
  unwords (('S'::[]) :: ((show_Q h) :: ((show_Q m) :: ((show_Q s) :: []))))
| HM (h, m) -> unwords (('M'::[]) :: ((show_Q h) :: ((show_Q m) :: [])))
| HH h -> unwords (('H'::[]) :: ((show_Q h) :: []))

(** val sh_zone : zone -> char list **)

let sh_zone z0 =
  unwords ((show_Z z0.zh) :: ((show_Z z0.zm) :: []))

(** val sh_tp : tp -> char list **)

let sh_tp p =
  unwords
    ((sh_date p.tdate) :: ((sh_tod p.ttod) :: ((sh_zone p.tzone) :: [])))

(** val sh_dur : dur -> char list **)

let sh_dur = function
| DW w -> unwords (('D'::('W'::[])) :: ((show_Z w) :: []))
| DU (y, mo, d, h, mi, s) ->
  unwords
    (('D'::('U'::[])) :: ((show_Z y) :: ((show_Z mo) :: ((show_Z d) :: (
    (show_Q h) :: ((show_Q mi) :: ((show_Q s) :: [])))))))

(** val sh_opt : ('a1 -> char list) -> 'a1 option -> char list **)

let sh_opt f = function
| Some a -> f a
| None -> 'E'::('R'::('R'::[]))

(** val sh_z3 : ((z * z) * z) -> char list **)

let sh_z3 = function
| (p, c) ->
  let (a, b) = p in unwords ((show_Z a) :: ((show_Z b) :: ((show_Z c) :: [])))

(** val sh_z2 : (z * z) -> char list **)

let sh_z2 = function
| (a, b) -> unwords ((show_Z a) :: ((show_Z b) :: []))

(** val sh_cmp : comparison -> char list **)

let sh_cmp = function
| Eq -> 'E'::('Q'::[])
| Lt -> 'L'::('T'::[])
| Gt -> 'G'::('T'::[])

(** val to_kind : mode -> char list -> tp -> tp option **)

let to_kind md k p =
  let conv0 =
    if eqb0 k ('C'::[])
    then to_calendar_date md p.tdate
    else if eqb0 k ('O'::[])
         then to_ordinal_date md p.tdate
         else if eqb0 k ('W'::[])
              then to_week_date md p.tdate
              else Some p.tdate
  in
  (match conv0 with
   | Some d -> Some (with_date p d)
   | None -> None)

(** val respell : mode -> tp -> dur -> zone -> char list -> tp option **)

let respell md p d z0 k =
  match tp_add md p d with
  | Some p1 ->
    (match to_time_zone md p1 z0 with
     | Some p2 -> to_kind md k p2
     | None -> None)
  | None -> None

(** val hash_key_eqb :
    (((z * z) * z) * ((q * q) * q)) -> (((z * z) * z) * ((q * q) * q)) -> bool **)

let hash_key_eqb k1 k2 =
  let (p, p0) = k1 in
  let (p1, d1) = p in
  let (y1, m1) = p1 in
  let (p2, s1) = p0 in
  let (h1, i1) = p2 in
  let (p3, p4) = k2 in
  let (p5, d2) = p3 in
  let (y2, m2) = p5 in
  let (p6, s2) = p4 in
  let (h2, i2) = p6 in
  (&&)
    ((&&)
      ((&&) ((&&) ((&&) (Z.eqb y1 y2) (Z.eqb m1 m2)) (Z.eqb d1 d2))
        (qeqb h1 h2)) (qeqb i1 i2)) (qeqb s1 s2)

(** val pair_out : mode -> tp -> tp -> char list **)

let pair_out md a b =
  let c = tp_cmp md a b in
  let h =
    match tp_hash_key md a with
    | Some k1 ->
      (match tp_hash_key md b with
       | Some k2 -> sh_bool (hash_key_eqb k1 k2)
       | None -> 'E'::('R'::('R'::[])))
    | None -> 'E'::('R'::('R'::[]))
  in
  let d = tp_sub md a b in
  let back =
    match d with
    | Some dd ->
      (match tp_add md b dd with
       | Some r ->
         unwords
           ((sh_tp r) :: ((';'::[]) :: ((sh_opt sh_cmp (tp_cmp md r a)) :: [])))
       | None ->
         'E'::('R'::('R'::(' '::(';'::(' '::('E'::('R'::('R'::[])))))))))
    | None -> 'E'::('R'::('R'::(' '::(';'::(' '::('E'::('R'::('R'::[]))))))))
  in
  unwords
    ((sh_tp a) :: ((';'::[]) :: ((sh_tp b) :: ((';'::[]) :: ((sh_opt sh_cmp c) :: ((';'::[]) :: (h :: ((';'::[]) :: (
    (sh_opt sh_dur d) :: ((';'::[]) :: (back :: [])))))))))))

(** val rOperand : (((tp * dur) * zone) * char list) rd **)

let rOperand =
  bind rTp (fun p ->
    bind rDur (fun d ->
      bind rZone (fun z0 -> bind tok (fun k -> ret (((p, d), z0), k)))))

(** val rOpt : 'a1 rd -> 'a1 option rd **)

let rOpt r ts = match ts with
| [] -> None
| t :: rest ->
  if eqb0 t ('-'::[])
  then Some (None, rest)
  else (match r ts with
        | Some p -> let (a, rest') = p in Some ((Some a), rest')
        | None -> None)

(** val rRecArgs : (((z option * tp option) * dur option) * tp option) rd **)

let rRecArgs =
  bind (rOpt rZ) (fun n0 ->
    bind (rOpt rTp) (fun s ->
      bind (rOpt rDur) (fun d ->
        bind (rOpt rTp) (fun e -> ret (((n0, s), d), e)))))

(** val mk_rec :
    mode -> (((z option * tp option) * dur option) * tp option) -> recur res **)

let mk_rec md = function
| (p, e) -> let (p0, d) = p in let (n0, s) = p0 in rec_make md n0 s d e

(** val sh_o : ('a1 -> char list) -> 'a1 option -> char list **)

let sh_o f = function
| Some a -> f a
| None -> '-'::[]

(** val sh_rec : mode -> recur -> char list **)

let sh_rec md r =
  concat (' '::(';'::(' '::[])))
    (app
      ((sh_o show_Z r.r_reps) :: ((sh_o sh_tp r.r_start) :: ((sh_o sh_dur
                                                               r.r_dur) :: (
      (sh_o sh_tp r.r_end) :: ((show_Z r.r_fmt) :: [])))))
      (map sh_tp
        (iter_take md r (S (S (S (S (S (S (S (S (S (S (S (S O)))))))))))))))

(** val sh_res : ('a1 -> char list) -> 'a1 res -> char list **)

let sh_res f = function
| Ok a -> f a
| Err -> 'E'::('R'::('R'::[]))

(** val sh_oo : tp option option -> char list **)

let sh_oo = function
| Some o ->
  (match o with
   | Some p -> sh_tp p
   | None -> 'N'::('o'::('n'::('e'::[]))))
| None -> 'E'::('R'::('R'::[]))

(** val sh_ob : bool option -> char list **)

let sh_ob = function
| Some b -> sh_bool b
| None -> 'E'::('R'::('R'::[]))

(** val fUEL : nat **)

let fUEL =
  S (S (S (S (S (S (S (S (S (S (S (S (S (S (S (S (S (S (S (S (S (S (S (S (S
    (S (S (S (S (S (S (S (S (S (S (S (S (S (S (S (S (S (S (S (S (S (S (S (S
    (S (S (S (S (S (S (S (S (S (S (S (S (S (S (S (S (S (S (S (S (S (S (S (S
    (S (S (S (S (S (S (S (S (S (S (S (S (S (S (S (S (S (S (S (S (S (S (S (S
    (S (S (S (S (S (S (S (S (S (S (S (S (S (S (S (S (S (S (S (S (S (S (S (S
    (S (S (S (S (S (S (S (S (S (S (S (S (S (S (S (S (S (S (S (S (S (S (S (S
    (S (S (S (S (S (S (S (S (S (S (S (S (S (S (S (S (S (S (S (S (S (S (S (S
    (S (S (S (S (S (S (S (S (S (S (S (S (S (S (S (S (S (S (S (S (S (S (S (S
    (S (S (S (S (S (S (S (S (S (S (S (S (S (S (S (S (S (S (S (S (S (S (S (S
    (S (S (S (S (S (S (S (S (S (S (S (S (S (S (S (S (S (S (S (S (S (S (S (S
    (S (S (S (S (S (S (S (S (S (S (S (S (S (S (S (S (S (S (S (S (S (S (S (S
    (S (S (S (S (S (S (S (S (S (S (S (S (S (S (S (S (S (S (S (S (S (S (S (S
    (S (S (S (S (S (S (S (S (S (S (S (S (S (S (S (S (S (S (S (S (S (S (S (S
    (S (S (S (S (S (S (S (S (S (S (S (S (S (S (S (S (S (S (S (S (S (S (S (S
    (S (S (S (S (S (S (S (S (S (S (S (S (S (S (S (S (S (S (S (S (S (S (S (S
    (S (S (S (S (S (S (S (S (S (S (S (S (S (S (S (S (S (S (S (S (S (S (S (S
    (S (S (S (S (S (S (S (S (S (S (S (S (S (S (S (S (S (S (S (S (S (S (S (S
    (S (S (S (S (S (S (S (S (S (S (S (S (S (S (S (S (S (S (S (S (S (S (S (S
    (S (S (S (S (S (S (S (S (S (S (S (S (S (S (S (S (S (S (S (S (S (S (S (S
    (S (S (S (S (S (S (S (S (S (S (S (S (S (S (S (S (S (S (S (S (S (S (S (S
    (S (S (S (S (S (S (S (S (S (S (S (S (S (S (S (S (S (S (S (S (S (S (S (S
    (S (S (S (S (S (S (S (S (S (S (S (S (S (S (S (S (S (S (S (S (S (S (S (S
    (S (S (S (S (S (S (S (S (S (S (S (S (S (S (S (S (S (S (S (S (S (S (S (S
    (S (S (S (S (S (S (S (S (S (S (S (S (S (S (S (S (S (S (S (S (S (S (S (S
    (S (S (S (S (S (S (S (S (S (S (S (S (S (S (S (S (S (S (S (S (S (S (S (S
    (S (S (S (S (S (S (S (S (S (S (S (S (S (S (S (S (S (S (S (S (S (S (S (S
    (S (S (S (S (S (S (S (S (S (S (S (S (S (S (S (S (S (S (S (S (S (S (S (S
    (S (S (S (S (S (S (S (S (S (S (S (S (S (S (S (S (S (S (S (S (S (S (S (S
    (S (S (S (S (S (S (S (S (S (S (S (S (S (S (S (S (S (S (S (S (S (S (S (S
    (S (S (S (S (S (S (S (S (S (S (S (S (S (S (S (S (S (S (S (S (S (S (S (S
    (S (S (S (S (S (S (S (S (S (S (S (S (S (S (S (S (S (S (S (S (S (S (S (S
    (S (S (S (S (S (S (S (S (S (S (S (S (S (S (S (S (S (S (S (S (S (S (S (S
    (S (S (S (S (S (S (S (S (S (S (S (S (S (S (S (S (S (S (S (S (S (S (S (S
    (S (S (S (S (S (S (S (S (S (S (S (S (S (S (S (S (S (S (S (S (S (S (S (S
    (S (S (S (S (S (S (S (S (S (S (S (S (S (S (S (S (S (S (S (S (S (S (S (S
    (S (S (S (S (S (S (S (S (S (S (S (S (S (S (S (S (S (S (S (S (S (S (S (S
    (S (S (S (S (S (S (S (S (S (S (S (S (S (S (S (S (S (S (S (S (S (S (S (S
    (S (S (S (S (S (S (S (S (S (S (S (S (S (S (S (S (S (S (S (S (S (S (S (S
    (S (S (S (S (S (S (S (S (S (S (S (S (S (S (S (S (S (S (S (S (S (S (S (S
    (S (S (S (S (S (S (S (S (S (S (S (S (S (S (S (S (S (S (S (S (S (S (S (S
    (S (S (S (S (S (S (S (S (S (S (S (S (S (S (S (S (S (S (S (S (S (S (S (S
    (S (S (S (S (S (S (S (S (S (S (S (S (S (S (S (S (S (S (S (S (S (S (S (S
    (S (S (S (S (S (S (S (S (S (S (S (S (S (S (S (S (S (S (S (S (S (S (S (S
    (S (S (S (S (S (S (S (S (S (S (S (S (S (S (S (S (S (S (S (S (S (S (S (S
    (S (S (S (S (S (S (S (S (S (S (S (S (S (S (S (S (S (S (S (S (S (S (S (S
    (S (S (S (S (S (S (S (S (S (S (S (S (S (S (S (S (S (S (S (S (S (S (S (S
    (S (S (S (S (S (S (S (S (S (S (S (S (S (S (S (S (S (S (S (S (S (S (S (S
    (S (S (S (S (S (S (S (S (S (S (S (S (S (S (S (S (S (S (S (S (S (S (S (S
    (S (S (S (S (S (S (S (S (S (S (S (S (S (S (S (S (S (S (S (S (S (S (S (S
    (S (S (S (S (S (S (S (S (S (S (S (S (S (S (S (S (S (S (S (S (S (S (S (S
    (S (S (S (S (S (S (S (S (S (S (S (S (S (S (S (S (S (S (S (S (S (S (S (S
    (S (S (S (S (S (S (S (S (S (S (S (S (S (S (S (S (S (S (S (S (S (S (S (S
    (S (S (S (S (S (S (S (S (S (S (S (S (S (S (S (S (S (S (S (S (S (S (S (S
    (S (S (S (S (S (S (S (S (S (S (S (S (S (S (S (S (S (S (S (S (S (S (S (S
    (S (S (S (S (S (S (S (S (S (S (S (S (S (S (S (S (S (S (S (S (S (S (S (S
    (S (S (S (S (S (S (S (S (S (S (S (S (S (S (S (S (S (S (S (S (S (S (S (S
    (S (S (S (S (S (S (S (S (S (S (S (S (S (S (S (S (S (S (S (S (S (S (S (S
    (S (S (S (S (S (S (S (S (S (S (S (S (S (S (S (S (S (S (S (S (S (S (S (S
    (S (S (S (S (S (S (S (S (S (S (S (S (S (S (S (S (S (S (S (S (S (S (S (S
    (S (S (S (S (S (S (S (S (S (S (S (S (S (S (S (S (S (S (S (S (S (S (S (S
    (S (S (S (S (S (S (S (S (S (S (S (S (S (S (S (S (S (S (S (S (S (S (S (S
    (S (S (S (S (S (S (S (S (S (S (S (S (S (S (S (S (S (S (S (S (S (S (S (S
    (S (S (S (S (S (S (S (S (S (S (S (S (S (S (S (S (S (S (S (S (S (S (S (S
    (S (S (S (S (S (S (S (S (S (S (S (S (S (S (S (S (S (S (S (S (S (S (S (S
    (S (S (S (S (S (S (S (S (S (S (S (S (S (S (S (S (S (S (S (S (S (S (S (S
    (S (S (S (S (S (S (S (S (S (S (S (S (S (S (S (S (S (S (S (S (S (S (S (S
    (S (S (S (S (S (S (S (S (S (S (S (S (S (S (S (S (S (S (S (S (S (S (S (S
    (S (S (S (S (S (S (S (S (S (S (S (S (S (S (S (S (S (S (S (S (S (S (S (S
    (S (S (S (S (S (S (S (S (S (S (S (S (S (S (S (S (S (S (S (S (S (S (S (S
    (S (S (S (S (S (S (S (S (S (S (S (S (S (S (S (S (S (S (S (S (S (S (S (S
    (S (S (S (S (S (S (S (S (S (S (S (S (S (S (S (S (S (S (S (S (S (S (S (S
    (S (S (S (S (S (S (S (S (S (S (S (S (S (S (S (S (S (S (S (S (S (S (S (S
    (S (S (S (S (S (S (S (S (S (S (S (S (S (S (S (S (S (S (S (S (S (S (S (S
    (S (S (S (S (S (S (S (S (S (S (S (S (S (S (S (S (S (S (S (S (S (S (S (S
    (S (S (S (S (S (S (S (S (S (S (S (S (S (S (S (S (S (S (S (S (S (S (S (S
    (S (S (S (S (S (S (S (S (S (S (S (S (S (S (S (S (S (S (S (S (S (S (S (S
    (S (S (S (S (S (S (S (S (S (S (S (S (S (S (S (S (S (S (S (S (S (S (S (S
    (S (S (S (S (S (S (S (S (S (S (S (S (S (S (S (S (S (S (S (S (S (S (S (S
    (S (S (S (S (S (S (S (S (S (S (S (S (S (S (S (S (S (S (S (S (S (S (S (S
    (S (S (S (S (S (S (S (S (S (S (S (S (S (S (S (S (S (S (S (S (S (S (S (S
    (S (S (S (S (S (S (S (S (S (S (S (S (S (S (S (S (S (S (S (S (S (S (S (S
    (S (S (S (S (S (S (S (S (S (S (S (S (S (S (S (S (S (S (S (S (S (S (S (S
    (S (S (S (S (S (S (S (S (S (S (S (S (S (S (S (S (S (S (S (S (S (S (S (S
    (S (S (S (S (S (S (S (S (S (S (S (S (S (S (S (S (S (S (S (S (S (S (S (S
    (S (S (S (S (S (S (S (S (S (S (S (S (S (S (S (S (S (S (S (S (S (S (S (S
    (S (S (S (S (S (S (S (S (S (S (S (S (S (S (S (S (S (S (S (S (S (S (S (S
    (S (S (S (S (S (S (S (S (S (S (S (S (S (S (S (S (S (S (S (S (S (S (S (S
    (S (S (S (S (S (S (S (S (S (S (S (S (S (S (S (S (S (S (S (S (S (S (S (S
    (S (S (S (S (S (S (S (S (S (S (S (S (S (S (S (S (S (S (S (S (S (S (S (S
    (S (S (S (S (S (S (S (S (S (S (S (S (S (S (S (S (S (S (S (S (S (S (S (S
    (S (S (S (S (S (S (S (S (S (S (S (S (S (S (S (S (S (S (S (S (S (S (S (S
    (S (S (S (S (S (S (S (S (S (S (S (S (S (S (S (S (S (S (S (S (S (S (S (S
    (S (S (S (S (S (S (S (S (S (S (S (S (S (S (S (S (S (S (S (S (S (S (S (S
    (S (S (S (S (S (S (S (S (S (S (S (S (S (S (S (S (S (S (S (S (S (S (S (S
    (S (S (S (S (S (S (S (S (S (S (S (S (S (S (S (S (S (S (S (S (S (S (S (S
    (S (S (S (S (S (S (S (S (S (S (S (S (S (S (S (S (S (S (S (S (S (S (S (S
    (S (S (S (S (S (S (S (S (S (S (S (S (S (S (S (S (S (S (S (S (S (S (S (S
    (S (S (S (S (S (S (S (S (S (S (S (S (S (S (S (S (S (S (S (S (S (S (S (S
    (S (S (S (S (S (S (S (S (S (S (S (S (S (S (S (S (S (S (S (S (S (S (S (S
    (S (S (S (S (S (S (S (S (S (S (S (S (S (S (S (S (S (S (S (S (S (S (S (S
    (S (S (S (S (S (S (S (S (S (S (S (S (S (S (S (S (S (S (S (S (S (S (S (S
    (S (S (S (S (S (S (S (S (S (S (S (S (S (S (S (S (S (S (S (S (S (S (S (S
    (S (S (S (S (S (S (S (S (S (S (S (S (S (S (S (S (S (S (S (S (S (S (S (S
    (S (S (S (S (S (S (S (S (S (S (S (S (S (S (S (S (S (S (S (S (S (S (S (S
    (S (S (S (S (S (S (S (S (S (S (S (S (S (S (S (S (S (S (S (S (S (S (S (S
    (S (S (S (S (S (S (S (S (S (S (S (S (S (S (S (S (S (S (S (S (S (S (S (S
    (S (S (S (S (S (S (S (S (S (S (S (S (S (S (S (S (S (S (S (S (S (S (S (S
    (S (S (S (S (S (S (S (S (S (S (S (S (S (S (S (S (S (S (S (S (S (S (S (S
    (S (S (S (S (S (S (S (S (S (S (S (S (S (S (S (S (S (S (S (S (S (S (S (S
    (S (S (S (S (S (S (S (S (S (S (S (S (S (S (S (S (S (S (S (S (S (S (S (S
    (S (S (S (S (S (S (S (S (S (S (S (S (S (S (S (S (S (S (S (S (S (S (S (S
    (S (S (S (S (S (S (S (S (S (S (S (S (S (S (S (S (S (S (S (S (S (S (S (S
    (S (S (S (S (S (S (S (S (S (S (S (S (S (S (S (S (S (S (S (S (S (S (S (S
    (S (S (S (S (S (S (S (S (S (S (S (S (S (S (S (S (S (S (S (S (S (S (S (S
    (S (S (S (S (S (S (S (S (S (S (S (S (S (S (S (S (S (S (S (S (S (S (S (S
    (S (S (S (S (S (S (S (S (S (S (S (S (S (S (S (S (S (S (S (S (S (S (S (S
    (S (S (S (S (S (S (S (S (S (S (S (S (S (S (S (S (S (S (S (S (S (S (S (S
    (S (S (S (S (S (S (S (S (S (S (S (S (S (S (S (S (S (S (S (S (S (S (S (S
    (S (S (S (S (S (S (S (S (S (S (S (S (S (S (S (S (S (S (S (S (S (S (S (S
    (S (S (S (S (S (S (S (S (S (S (S (S (S (S (S (S (S (S (S (S (S (S (S (S
    (S (S (S (S (S (S (S (S (S (S (S (S (S (S (S (S (S (S (S (S (S (S (S (S
    (S (S (S (S (S (S (S (S (S (S (S (S (S (S (S (S (S (S (S (S (S (S (S (S
    (S (S (S (S (S (S (S (S (S (S (S (S (S (S (S (S (S (S (S (S (S (S (S (S
    (S (S (S (S (S (S (S (S (S (S (S (S (S (S (S (S (S (S (S (S (S (S (S (S
    (S (S (S (S (S (S (S (S (S (S (S (S (S (S (S (S (S (S (S (S (S (S (S
    O)))))))))))))))))))))))))))))))))))))))))))))))))))))))))))))))))))))))))))))))))))))))))))))))))))))))))))))))))))))))))))))))))))))))))))))))))))))))))))))))))))))))))))))))))))))))))))))))))))))))))))))))))))))))))))))))))))))))))))))))))))))))))))))))))))))))))))))))))))))))))))))))))))))))))))))))))))))))))))))))))))))))))))))))))))))))))))))))))))))))))))))))))))))))))))))))))))))))))))))))))))))))))))))))))))))))))))))))))))))))))))))))))))))))))))))))))))))))))))))))))))))))))))))))))))))))))))))))))))))))))))))))))))))))))))))))))))))))))))))))))))))))))))))))))))))))))))))))))))))))))))))))))))))))))))))))))))))))))))))))))))))))))))))))))))))))))))))))))))))))))))))))))))))))))))))))))))))))))))))))))))))))))))))))))))))))))))))))))))))))))))))))))))))))))))))))))))))))))))))))))))))))))))))))))))))))))))))))))))))))))))))))))))))))))))))))))))))))))))))))))))))))))))))))))))))))))))))))))))))))))))))))))))))))))))))))))))))))))))))))))))))))))))))))))))))))))))))))))))))))))))))))))))))))))))))))))))))))))))))))))))))))))))))))))))))))))))))))))))))))))))))))))))))))))))))))))))))))))))))))))))))))))))))))))))))))))))))))))))))))))))))))))))))))))))))))))))))))))))))))))))))))))))))))))))))))))))))))))))))))))))))))))))))))))))))))))))))))))))))))))))))))))))))))))))))))))))))))))))))))))))))))))))))))))))))))))))))))))))))))))))))))))))))))))))))))))))))))))))))))))))))))))))))))))))))))))))))))))))))))))))))))))))))))))))))))))))))))))))))))))))))))))))))))))))))))))))))))))))))))))))))))))))))))))))))))))))))))))))))))))))))))))))))))))))))))))))))))))))))))))))))))))))))))))))))))))))))))))))))))))))))))))))))))))))))))))))))))))))))))))))))))))))))))))))))))))))))))))))))))))))))))))))))))))))))))))))))))))))))))))))))))))))))))))))))))))))))))))))))))))))))))))))))))))))))))))))))))))))))))))))))))))))))))))))))))))))))))))))))))))))))))))))))))))))))))))))))))))))))))))))))))))))))))))))))))))))))))))))))))))))))))))))))))))))))))))))))))))))))))))))))))))))))))))))))))))))))))))))))))))))))))))))))))))))))))))))))))))))))))))))))))))))))))))))))))))))))))))))))))))))))))))))))))))))))))))))))))))))))))))))))))))))))))))))))))))))))))))))))))))))))))))))))))))))))))))))))))))))))))))))))))))))))))))))))))))))))))))))))))))))))))))))))))))))))))))))))))))))))))))))))))))))))))))))))))))))))))))))))))))))))))))))))))))))))))))))))))))))))))))))))))))))))))))))))))))))))))))))))))))))))))))))))))))))))))))))))))))))))))))))))))))))))))))))))))))))))))))))))))))))))))))))))))))))))))))))))))))))))))))))))))))))))))))))))))))))))))))))))))))))))))))))))))))))))))))))))))))))))))))))))))))))))))))))))))))))))))))))))))))))))))))))))))))))))))))))))))))))))))))))))))))))))))))))))))))))))))))))))))))))))))))))))))))))))))))))))))))))))))))))))))))))))))))))))))))))))))))))))))))))))))))))))))))))))))))))))))))))))))))))))))))))))))))))))))))))))))))))))))))))))))))))))))))))))))))))))))))))))))))))))))))))))))))))))))))))))))))))))))

(** val rTrunc : trunc rd **)

let rTrunc =
  bind (rOpt rQ) (fun h ->
    bind (rOpt rQ) (fun m ->
      bind (rOpt rQ) (fun s ->
        bind (rOpt rZ) (fun dow ->
          bind (rOpt rZ) (fun dom ->
            bind (rOpt rZ) (fun doy ->
              bind (rOpt rZ) (fun wk ->
                bind (rOpt rZ) (fun zh0 ->
                  bind (rOpt rZ) (fun zm0 ->
                    ret { t_hour = h; t_min = m; t_sec = s; t_dow = dow;
                      t_dom = dom; t_doy = doy; t_week = wk; t_zone =
                      (match zh0 with
                       | Some a ->
                         (match zm0 with
                          | Some b -> Some { zh = a; zm = b }
                          | None -> None)
                       | None -> None) })))))))))

(** val sh_tres : tres -> char list **)

let sh_tres = function
| TOk p -> sh_tp p
| THang -> 'H'::('A'::('N'::('G'::[])))
| TErr -> 'E'::('R'::('R'::[]))

(** val local_ds : mode -> tp -> zone -> z * q **)

let local_ds md p z0 =
  let x = qplus (instant md p) (qz (zone_secs z0)) in
  let n0 =
    qfloor
      (qdiv x
        (qz (Zpos (XO (XO (XO (XO (XO (XO (XO (XI (XI (XO (XO (XO (XI (XO (XI
          (XO XH)))))))))))))))))))
  in
  (n0,
  (qred
    (qminus x
      (qz
        (Z.mul (Zpos (XO (XO (XO (XO (XO (XO (XO (XI (XI (XO (XO (XO (XI (XO
          (XI (XO XH))))))))))))))))) n0)))))

(** val qfl : q option -> z option **)

let qfl = function
| Some x -> Some (qfloor x)
| None -> None

(** val trunc_expect : mode -> trunc -> tp -> char list **)

let trunc_expect md t p =
  let z0 = match t.t_zone with
           | Some z0 -> z0
           | None -> p.tzone in
  let (n0, sod0) = local_ds md p z0 in
  if negb (qis_int sod0)
  then 'N'::('O'::('N'::('I'::('N'::('T'::[])))))
  else (match next_match md { ds_dow = t.t_dow; ds_dom = t.t_dom; ds_doy =
                t.t_doy; ds_week = t.t_week } { ts_h = (qfl t.t_hour); ts_m =
                (qfl t.t_min); ts_s = (qfl t.t_sec) } n0 (qfloor sod0) (Zpos
                (XO (XO (XO (XI (XI (XI (XO (XI (XI (XI (XO XH)))))))))))) with
        | Some p0 ->
          let (n1, x) = p0 in unwords ((show_Z n1) :: ((show_Z x) :: []))
        | None -> 'N'::('O'::('M'::('A'::('T'::('C'::('H'::[])))))))

(** val op_table : (char list * char list rd) list **)

let op_table =
  (('l'::('e'::('a'::('p'::[])))),
    (bind rZ (fun y -> ret (sh_bool (get_is_leap_year y))))) :: ((('y'::('l'::('e'::('n'::[])))),
    (bind rMode (fun md ->
      bind rZ (fun y -> ret (show_Z (get_days_in_year md y)))))) :: ((('m'::('l'::('e'::('n'::[])))),
    (bind rMode (fun md ->
      bind rZ (fun m ->
        bind rZ (fun y -> ret (show_Z (get_days_in_month md m y))))))) :: ((('m'::('l'::('e'::('n'::('l'::('e'::('a'::('p'::[])))))))),
    (bind rMode (fun md ->
      bind rZ (fun m -> ret (show_Z (get_days_in_month_leap md m)))))) :: ((('r'::('a'::('n'::('g'::('e'::[]))))),
    (bind rMode (fun md ->
      bind rZ (fun s ->
        bind rZ (fun e -> ret (show_Z (get_days_in_year_range md s e))))))) :: ((('w'::('e'::('e'::('k'::('s'::[]))))),
    (bind rMode (fun md ->
      bind rZ (fun y -> ret (show_Z (get_weeks_in_year md y)))))) :: ((('w'::('s'::('t'::('a'::('r'::('t'::[])))))),
    (bind rMode (fun md ->
      bind rZ (fun y -> ret (sh_z3 (week_date_start md y)))))) :: ((('o'::('w'::('s'::('t'::('a'::('r'::('t'::[]))))))),
    (bind rMode (fun md ->
      bind rZ (fun y -> ret (sh_opt sh_z2 (ord_week_date_start md y)))))) :: ((('s'::('i'::('n'::('c'::('e'::('1'::('a'::('d'::[])))))))),
    (bind rMode (fun md ->
      bind rZ (fun y -> ret (show_Z (get_days_since_1_ad md y)))))) :: ((('c'::('2'::('o'::[]))),
    (bind rMode (fun md ->
      bind rZ (fun y ->
        bind rZ (fun m ->
          bind rZ (fun d -> ret (sh_opt sh_z2 (ord_from_cal md y m d)))))))) :: ((('o'::('2'::('c'::[]))),
    (bind rMode (fun md ->
      bind rZ (fun y ->
        bind rZ (fun d -> ret (sh_opt sh_z3 (cal_from_ord md y d))))))) :: ((('c'::('2'::('w'::[]))),
    (bind rMode (fun md ->
      bind rZ (fun y ->
        bind rZ (fun m ->
          bind rZ (fun d -> ret (sh_opt sh_z3 (week_from_cal md y m d)))))))) :: ((('w'::('2'::('c'::[]))),
    (bind rMode (fun md ->
      bind rZ (fun y ->
        bind rZ (fun w ->
          bind rZ (fun d -> ret (sh_opt sh_z3 (cal_from_week md y w d)))))))) :: ((('o'::('2'::('w'::[]))),
    (bind rMode (fun md ->
      bind rZ (fun y ->
        bind rZ (fun d -> ret (sh_opt sh_z3 (week_from_ord md y d))))))) :: ((('w'::('2'::('o'::[]))),
    (bind rMode (fun md ->
      bind rZ (fun y ->
        bind rZ (fun w ->
          bind rZ (fun d -> ret (sh_opt sh_z2 (ord_from_week md y w d)))))))) :: ((('s'::('_'::('d'::('n'::[])))),
    (bind rMode (fun md -> bind rDate (fun d -> ret (show_Z (date_dn md d)))))) :: ((('s'::('_'::('v'::('a'::('l'::('i'::('d'::('d'::('a'::('t'::('e'::[]))))))))))),
    (bind rMode (fun md ->
      bind rDate (fun d -> ret (sh_bool (valid_date md d)))))) :: ((('s'::('_'::('w'::('e'::('e'::('k'::('d'::('a'::('y'::[]))))))))),
    (bind rMode (fun md -> bind rZ (fun n0 -> ret (show_Z (weekday md n0)))))) :: ((('s'::('_'::('y'::('l'::('e'::('n'::[])))))),
    (bind rMode (fun md -> bind rZ (fun y -> ret (show_Z (ylen md y)))))) :: ((('s'::('_'::('m'::('l'::('e'::('n'::[])))))),
    (bind rMode (fun md ->
      bind rZ (fun y -> bind rZ (fun m -> ret (show_Z (mlen md y m))))))) :: ((('s'::('_'::('w'::('e'::('e'::('k'::('s'::[]))))))),
    (bind rMode (fun md -> bind rZ (fun y -> ret (show_Z (weeks_in md y)))))) :: ((('s'::('_'::('w'::('y'::('s'::[]))))),
    (bind rMode (fun md -> bind rZ (fun y -> ret (show_Z (wys md y)))))) :: ((('s'::('_'::('d'::('b'::('y'::[]))))),
    (bind rMode (fun md -> bind rZ (fun y -> ret (show_Z (dby md y)))))) :: ((('s'::('_'::('i'::('n'::('s'::('t'::('a'::('n'::('t'::[]))))))))),
    (bind rMode (fun md -> bind rTp (fun p -> ret (show_Q (instant md p)))))) :: ((('s'::('_'::('v'::('a'::('l'::('i'::('d'::[]))))))),
    (bind rMode (fun md -> bind rTp (fun p -> ret (sh_bool (valid_tp md p)))))) :: ((('s'::('_'::('n'::('o'::('r'::('m'::('a'::('l'::[])))))))),
    (bind rMode (fun md ->
      bind rTp (fun p -> ret (sh_bool (normal_tp md p)))))) :: ((('s'::('_'::('l'::('e'::('n'::[]))))),
    (bind rDur (fun x -> ret (show_Q (dur_len x))))) :: ((('p'::('a'::('i'::('r'::[])))),
    (bind rMode (fun md ->
      bind rOperand (fun a ->
        bind rOperand (fun b ->
          ret
            (let (p, ka) = a in
             let (p0, za) = p in
             let (pa, da) = p0 in
             let (p1, kb) = b in
             let (p2, zb) = p1 in
             let (pb, db) = p2 in
             (match respell md pa da za ka with
              | Some a0 ->
                (match respell md pb db zb kb with
                 | Some b0 -> pair_out md a0 b0
                 | None -> 'E'::('R'::('R'::[])))
              | None -> 'E'::('R'::('R'::[]))))))))) :: ((('a'::('d'::('d'::('s'::('u'::('b'::[])))))),
    (bind rMode (fun md ->
      bind rTp (fun p ->
        bind rDur (fun d ->
          ret
            (match tp_add md p d with
             | Some r ->
               (match tp_sub md r p with
                | Some d' ->
                  unwords
                    ((sh_dur d') :: ((';'::[]) :: ((sh_bool (dur_eqb d' d)) :: [])))
                | None -> 'E'::('R'::('R'::[])))
             | None -> 'E'::('R'::('R'::[])))))))) :: ((('t'::('o'::('l'::('o'::('c'::('a'::('l'::[]))))))),
    (bind rMode (fun md ->
      bind rTp (fun p ->
        bind rZone (fun z0 -> ret (sh_opt sh_tp (to_time_zone md p z0))))))) :: ((('t'::('o'::('u'::('t'::('c'::[]))))),
    (bind rMode (fun md ->
      bind rTp (fun p -> ret (sh_opt sh_tp (to_utc md p)))))) :: ((('s'::('_'::('m'::('o'::('n'::('t'::('h'::('s'::('h'::('i'::('f'::('t'::[])))))))))))),
    (bind rMode (fun md ->
      bind rZ (fun n0 ->
        bind rZ (fun y ->
          bind rZ (fun m ->
            bind rZ (fun d ->
              ret
                (if Z.eqb n0 Z0
                 then sh_z3 ((y, m), d)
                 else sh_z3 (month_shift md n0 ((y, m), d)))))))))) :: ((('a'::('d'::('d'::('s'::('t'::('a'::('g'::('e'::('d'::[]))))))))),
    (bind rMode (fun md ->
      bind rTp (fun p ->
        bind rDur (fun x ->
          ret
            (match to_days x with
             | DW _ -> 'E'::('R'::('R'::[]))
             | DU (ys, mos, ds, h, mi, s) ->
               (match tp_add md p (DU (Z0, Z0, ds, h, mi, s)) with
                | Some p1 ->
                  (match tp_add md p1 (DU (Z0, mos, Z0, { qnum = Z0; qden =
                           XH }, { qnum = Z0; qden = XH }, { qnum = Z0;
                           qden = XH })) with
                   | Some p2 ->
                     sh_opt sh_tp
                       (tp_add md p2 (DU (ys, Z0, Z0, { qnum = Z0; qden =
                         XH }, { qnum = Z0; qden = XH }, { qnum = Z0; qden =
                         XH })))
                   | None -> 'E'::('R'::('R'::[])))
                | None -> 'E'::('R'::('R'::[]))))))))) :: ((('s'::('_'::('s'::('h'::('i'::('f'::('t'::('d'::('a'::('t'::('e'::[]))))))))))),
    (bind rMode (fun md ->
      bind rZ (fun n0 ->
        bind rDate (fun d ->
          ret
            (match to_calendar_date md d with
             | Some d0 ->
               (match d0 with
                | Cal (y, m, dd) ->
                  if Z.eqb n0 Z0
                  then sh_z3 ((y, m), dd)
                  else sh_z3 (month_shift md n0 ((y, m), dd))
                | _ -> 'E'::('R'::('R'::[])))
             | None -> 'E'::('R'::('R'::[])))))))) :: ((('a'::('d'::('d'::('s'::('t'::('e'::('p'::('s'::[])))))))),
    (bind rMode (fun md ->
      bind rTp (fun p ->
        bind rZ (fun n0 ->
          ret
            (sh_opt sh_tp
              (Coq_Pos.iter (fun o ->
                match o with
                | Some x ->
                  add_months md x (if Z.ltb Z0 n0 then Zpos XH else Zneg XH)
                | None -> None) (Some p) (Z.to_pos (Z.abs n0))))))))) :: ((('a'::('d'::('d'::('m'::('o'::('n'::('t'::('h'::('s'::[]))))))))),
    (bind rMode (fun md ->
      bind rTp (fun p ->
        bind rZ (fun n0 -> ret (sh_opt sh_tp (add_months md p n0))))))) :: ((('r'::('m'::('a'::('k'::('e'::[]))))),
    (bind rMode (fun md ->
      bind rRecArgs (fun a -> ret (sh_res (sh_rec md) (mk_rec md a)))))) :: ((('r'::('q'::('u'::('e'::('r'::('y'::[])))))),
    (bind rMode (fun md ->
      bind rRecArgs (fun a ->
        bind rOperand (fun b ->
          bind rZ (fun i ->
            ret
              (let (p, kb) = b in
               let (p0, zb) = p in
               let (pb, db) = p0 in
               (match mk_rec md a with
                | Ok r ->
                  (match respell md pb db zb kb with
                   | Some t ->
                     concat (' '::(';'::(' '::[])))
                       ((sh_tp t) :: ((sh_ob (get_is_valid md r t fUEL)) :: ((
                       match r.r_start with
                       | Some _ -> sh_oo (get_first_after md r t fUEL)
                       | None ->
                         'N'::('O'::('S'::('T'::('A'::('R'::('T'::[]))))))) :: (
                       (sh_o sh_tp (get_next md r (Some t))) :: ((sh_o sh_tp
                                                                   (get_prev
                                                                    md r
                                                                    (Some t))) :: (
                       (sh_o sh_tp (rec_getitem md r i)) :: []))))))
                   | None -> 'E'::('R'::('R'::[])))
                | Err -> 'E'::('R'::('R'::[])))))))))) :: ((('r'::('a'::('d'::('d'::[])))),
    (bind rMode (fun md ->
      bind rRecArgs (fun a ->
        bind rDur (fun d ->
          ret
            (match mk_rec md a with
             | Ok r ->
               (match rec_add md r d with
                | Ok r1 ->
                  concat (' '::(';'::(' '::[])))
                    ((sh_rec md r1) :: ((match rec_sub md r1 d with
                                         | Ok r2 ->
                                           append
                                             ('b'::('a'::('c'::('k'::(' '::[])))))
                                             (sh_bool (rec_eqb md r2 r))
                                         | Err ->
                                           'b'::('a'::('c'::('k'::(' '::('E'::('R'::('R'::[])))))))) :: []))
                | Err -> 'E'::('R'::('R'::[])))
             | Err -> 'E'::('R'::('R'::[])))))))) :: ((('r'::('e'::('q'::[]))),
    (bind rMode (fun md ->
      bind rRecArgs (fun a ->
        bind rRecArgs (fun b ->
          ret
            (match mk_rec md a with
             | Ok r1 ->
               (match mk_rec md b with
                | Ok r2 -> sh_bool (rec_eqb md r1 r2)
                | Err -> 'E'::('R'::('R'::[])))
             | Err -> 'E'::('R'::('R'::[])))))))) :: ((('t'::('a'::('d'::('d'::[])))),
    (bind rMode (fun md ->
      bind rTrunc (fun t ->
        bind rTp (fun p ->
          ret
            (match tp_add_trunc md t p with
             | TOk r ->
               unwords
                 ((sh_tp r) :: ((';'::[]) :: ((sh_tres (tp_add_trunc md t r)) :: [])))
             | x -> sh_tres x)))))) :: ((('s'::('_'::('t'::('r'::('u'::('n'::('c'::('e'::('x'::('p'::('e'::('c'::('t'::[]))))))))))))),
    (bind rMode (fun md ->
      bind rTrunc (fun t -> bind rTp (fun p -> ret (trunc_expect md t p)))))) :: ((('s'::('_'::('c'::('i'::('v'::('i'::('l'::[]))))))),
    (bind rMode (fun md ->
      bind rTp (fun p ->
        ret
          (let (n0, x) = local_ds md p p.tzone in
           let (p0, d) = cal_of_dn md n0 in
           let (y, m) = p0 in
           let (_, doy) = ord_of_dn md n0 in
           let sec = qfloor x in
           let unix =
             qfloor
               (qminus (instant md p)
                 (instant md { tdate = (Cal ((Zpos (XO (XI (XO (XO (XI (XI
                   (XO (XI (XI (XI XH))))))))))), (Zpos XH), (Zpos XH)));
                   ttod = (HMS ({ qnum = Z0; qden = XH }, { qnum = Z0; qden =
                   XH }, { qnum = Z0; qden = XH })); tzone = { zh = Z0; zm =
                   Z0 } }))
           in
           unwords
             ((show_Z y) :: ((show_Z m) :: ((show_Z d) :: ((show_Z doy) :: (
             (show_Z
               (Z.div sec (Zpos (XO (XO (XO (XO (XI (XO (XO (XO (XO (XI (XI
                 XH)))))))))))))) :: ((show_Z
                                        (Z.modulo
                                          (Z.div sec (Zpos (XO (XO (XI (XI
                                            (XI XH))))))) (Zpos (XO (XO (XI
                                          (XI (XI XH)))))))) :: ((show_Z
                                                                   (Z.modulo
                                                                    sec (Zpos
                                                                    (XO (XO
                                                                    (XI (XI
                                                                    (XI
                                                                    XH)))))))) :: (
             (show_Z unix) :: []))))))))))))) :: ((('s'::('_'::('l'::('o'::('c'::('a'::('l'::('d'::('s'::[]))))))))),
    (bind rMode (fun md ->
      bind rTp (fun p ->
        bind rZone (fun z0 ->
          ret
            (let (n0, x) = local_ds md p z0 in
             unwords ((show_Z n0) :: ((show_Q x) :: [])))))))) :: ((('d'::('a'::('d'::('d'::[])))),
    (bind rDur (fun a -> bind rDur (fun b -> ret (sh_dur (dur_add a b)))))) :: ((('d'::('s'::('u'::('b'::[])))),
    (bind rDur (fun a -> bind rDur (fun b -> ret (sh_dur (dur_sub a b)))))) :: ((('d'::('m'::('u'::('l'::[])))),
    (bind rDur (fun a -> bind rZ (fun n0 -> ret (sh_dur (dur_mul a n0)))))) :: ((('d'::('f'::('l'::('o'::('o'::('r'::('d'::('i'::('v'::[]))))))))),
    (bind rDur (fun a ->
      bind rZ (fun n0 ->
        ret
          (if Z.eqb n0 Z0
           then 'E'::('X'::('C'::(' '::('Z'::('e'::('r'::('o'::('D'::('i'::('v'::('i'::('s'::('i'::('o'::('n'::('E'::('r'::('r'::('o'::('r'::[]))))))))))))))))))))
           else sh_dur (dur_floordiv a n0)))))) :: ((('d'::('a'::('b'::('s'::[])))),
    (bind rDur (fun a -> ret (sh_dur (dur_abs a))))) :: ((('d'::('e'::('q'::[]))),
    (bind rDur (fun a -> bind rDur (fun b -> ret (sh_bool (dur_eqb a b)))))) :: ((('d'::('c'::('m'::('p'::[])))),
    (bind rMode (fun md ->
      bind rDur (fun a ->
        bind rDur (fun b ->
          ret
            (unwords
              ((sh_bool (dur_ltb md a b)) :: ((sh_bool (dur_leb md a b)) :: (
              (sh_bool (dur_gtb md a b)) :: ((sh_bool (dur_geb md a b)) :: [])))))))))) :: ((('d'::('h'::('a'::('s'::('h'::[]))))),
    (bind rDur (fun a ->
      bind rDur (fun b ->
        ret
          (let (p, s1) = dur_hash_key a in
           let (y1, m1) = p in
           let (p0, s2) = dur_hash_key b in
           let (y2, m2) = p0 in
           sh_bool ((&&) ((&&) (Z.eqb y1 y2) (Z.eqb m1 m2)) (qeqb s1 s2))))))) :: ((('d'::('b'::('o'::('o'::('l'::[]))))),
    (bind rDur (fun a -> ret (sh_bool (dur_bool a))))) :: ((('d'::('e'::('x'::('a'::('c'::('t'::[])))))),
    (bind rDur (fun a -> ret (sh_bool (is_exact a))))) :: ((('d'::('s'::('e'::('c'::('s'::[]))))),
    (bind rMode (fun md ->
      bind rDur (fun a -> ret (show_Q (get_seconds md a)))))) :: ((('d'::('d'::('a'::('y'::('s'::[]))))),
    (bind rMode (fun md ->
      bind rDur (fun a ->
        ret
          (let (d, sec) = days_and_seconds md a in
           unwords ((show_Z d) :: ((show_Q sec) :: []))))))) :: ((('d'::('t'::('o'::('d'::('a'::('y'::('s'::[]))))))),
    (bind rDur (fun a -> ret (sh_dur (to_days a))))) :: ((('d'::('t'::('o'::('w'::('e'::('e'::('k'::('s'::[])))))))),
    (bind rDur (fun a ->
      ret
        (sh_dur
          (match a with
           | DW _ -> a
           | DU (_, _, d, _, _, _) ->
             dur_make Z0 Z0 (Z.div d (Zpos (XI (XI XH)))) Z0 { qnum = Z0;
               qden = XH } { qnum = Z0; qden = XH } { qnum = Z0; qden = XH }))))) :: ((('l'::('o'::('c'::('a'::('l'::('t'::('z'::[]))))))),
    (bind rZ (fun tz ->
      bind rZ (fun alt ->
        bind rZ (fun dl ->
          bind rZ (fun dst -> ret (sh_z2 (get_local_time_zone tz alt dl dst)))))))) :: ((('l'::('o'::('c'::('a'::('l'::('f'::('m'::('t'::[])))))))),
    (bind tok (fun m ->
      bind rZ (fun tz ->
        bind rZ (fun alt ->
          bind rZ (fun dl ->
            bind rZ (fun dst ->
              ret
                (get_local_time_zone_format
                  (if eqb0 m
                        ('r'::('e'::('d'::('u'::('c'::('e'::('d'::[])))))))
                   then TzReduced
                   else if eqb0 m
                             ('e'::('x'::('t'::('e'::('n'::('d'::('e'::('d'::[]))))))))
                        then TzExtended
                        else TzNormal) tz alt dl dst)))))))) :: ((('s'::('_'::('r'::('e'::('a'::('d'::('o'::('f'::('f'::('s'::('e'::('t'::[])))))))))))),
    (bind tok (fun t -> ret (sh_opt sh_z2 (read_offset t))))) :: ((('f'::('r'::('o'::('m'::('u'::('n'::('i'::('x'::[])))))))),
    (bind rMode (fun md ->
      bind rQ (fun n0 ->
        bind tok (fun k ->
          if eqb0 k ('u'::('t'::('c'::[])))
          then ret (sh_opt sh_tp (from_unix md n0 None))
          else bind rZ (fun h ->
                 bind rZ (fun m ->
                   ret (sh_opt sh_tp (from_unix md n0 (Some (h, m))))))))))) :: ((('t'::('o'::('u'::('n'::('i'::('x'::[])))))),
    (bind rMode (fun md ->
      bind rTp (fun p -> ret (sh_opt show_Z (seconds_since_unix_epoch md p)))))) :: ((('a'::('d'::('d'::[]))),
    (bind rMode (fun md ->
      bind rTp (fun p ->
        bind rDur (fun x -> ret (sh_opt sh_tp (tp_add md p x))))))) :: ((('s'::('u'::('b'::('d'::[])))),
    (bind rMode (fun md ->
      bind rTp (fun p ->
        bind rDur (fun x -> ret (sh_opt sh_tp (tp_sub_dur md p x))))))) :: ((('t'::('z'::[])),
    (bind rMode (fun md ->
      bind rTp (fun p ->
        bind rZone (fun z0 -> ret (sh_opt sh_tp (to_time_zone md p z0))))))) :: ((('c'::('m'::('p'::[]))),
    (bind rMode (fun md ->
      bind rTp (fun a ->
        bind rTp (fun b -> ret (sh_opt sh_cmp (tp_cmp md a b))))))) :: ((('h'::('a'::('s'::('h'::('k'::('e'::('y'::[]))))))),
    (bind rMode (fun md ->
      bind rTp (fun p ->
        ret
          (sh_opt (fun k ->
            let (y0, y1) = k in
            let (y2, d) = y0 in
            let (y, m) = y2 in
            let (y3, s) = y1 in
            let (h, mi) = y3 in
            unwords
              ((show_Z y) :: ((show_Z m) :: ((show_Z d) :: ((show_Q h) :: (
              (show_Q mi) :: ((show_Q s) :: []))))))) (tp_hash_key md p)))))) :: ((('s'::('u'::('b'::[]))),
    (bind rMode (fun md ->
      bind rTp (fun a ->
        bind rTp (fun b -> ret (sh_opt sh_dur (tp_sub md a b))))))) :: ((('t'::('o'::('c'::('a'::('l'::[]))))),
    (bind rMode (fun md ->
      bind rDate (fun d ->
        ret
          (sh_opt sh_date
            (if date_in_bounds md d then to_calendar_date md d else None)))))) :: ((('t'::('o'::('o'::('r'::('d'::[]))))),
    (bind rMode (fun md ->
      bind rDate (fun d ->
        ret
          (sh_opt sh_date
            (if date_in_bounds md d then to_ordinal_date md d else None)))))) :: ((('t'::('o'::('w'::('e'::('e'::('k'::[])))))),
    (bind rMode (fun md ->
      bind rDate (fun d ->
        ret
          (sh_opt sh_date
            (if date_in_bounds md d then to_week_date md d else None)))))) :: [])))))))))))))))))))))))))))))))))))))))))))))))))))))))))))))))))))))))

(** val lookup : char list -> (char list * 'a1) list -> 'a1 option **)

let rec lookup k = function
| [] -> None
| p :: r -> let (k', v) = p in if eqb0 k k' then Some v else lookup k r

(** val run_ops :
    (char list * char list rd) list -> char list -> char list **)

let run_ops table line =
  match words line with
  | [] -> []
  | op :: args ->
    (match lookup op table with
     | Some f ->
       (match f args with
        | Some p ->
          let (s, l) = p in
          (match l with
           | [] -> s
           | _ :: _ -> 'B'::('A'::('D'::('A'::('R'::('G'::('S'::[])))))))
        | None -> 'B'::('A'::('D'::('A'::('R'::('G'::('S'::[])))))))
     | None -> 'B'::('A'::('D'::('O'::('P'::[])))))

type 'a tres0 =
| TOk0 of 'a
| TSyntax
| TBadInput
| TValueError
| TUnmodelled

(** val tbind0 : 'a1 tres0 -> ('a1 -> 'a2 tres0) -> 'a2 tres0 **)

let tbind0 m f =
  match m with
  | TOk0 a -> f a
  | TSyntax -> TSyntax
  | TBadInput -> TBadInput
  | TValueError -> TValueError
  | TUnmodelled -> TUnmodelled

(** val tmap : ('a1 -> 'a2) -> 'a1 tres0 -> 'a2 tres0 **)

let tmap f m =
  tbind0 m (fun a -> TOk0 (f a))

(** val nL : char **)

let nL =
  '\n'

(** val is_digit : char -> bool **)

let is_digit c =
  let n0 = n_of_ascii c in
  (&&) (N.leb (Npos (XO (XO (XO (XO (XI XH)))))) n0)
    (N.leb n0 (Npos (XI (XO (XO (XI (XI XH)))))))

(** val is_ascii7 : char -> bool **)

let is_ascii7 c =
  N.ltb (n_of_ascii c) (Npos (XO (XO (XO (XO (XO (XO (XO XH))))))))

(** val digit_val0 : char -> z **)

let digit_val0 c =
  Z.sub (Z.of_N (n_of_ascii c)) (Zpos (XO (XO (XO (XO (XI XH))))))

(** val digit_char : z -> char **)

let digit_char z0 =
  ascii_of_N (Z.to_N (Z.add z0 (Zpos (XO (XO (XO (XO (XI XH))))))))

(** val str_all : (char -> bool) -> char list -> bool **)

let rec str_all p = function
| [] -> true
| c::r -> (&&) (p c) (str_all p r)

(** val str_nonempty : char list -> bool **)

let str_nonempty = function
| [] -> false
| _::_ -> true

(** val slen : char list -> nat **)

let slen =
  length

(** val dec_acc : char list -> z -> z **)

let rec dec_acc s a =
  match s with
  | [] -> a
  | c::r ->
    dec_acc r (Z.add (Z.mul a (Zpos (XO (XI (XO XH))))) (digit_val0 c))

(** val dec_val : char list -> z **)

let dec_val s =
  dec_acc s Z0

(** val span_digits : char list -> char list * char list **)

let rec span_digits s = match s with
| [] -> ([], [])
| c::r ->
  if is_digit c then let (a, b) = span_digits r in ((c::a), b) else ([], s)

(** val iNT_MAX_STR_DIGITS : nat **)

let iNT_MAX_STR_DIGITS =
  S (S (S (S (S (S (S (S (S (S (S (S (S (S (S (S (S (S (S (S (S (S (S (S (S
    (S (S (S (S (S (S (S (S (S (S (S (S (S (S (S (S (S (S (S (S (S (S (S (S
    (S (S (S (S (S (S (S (S (S (S (S (S (S (S (S (S (S (S (S (S (S (S (S (S
    (S (S (S (S (S (S (S (S (S (S (S (S (S (S (S (S (S (S (S (S (S (S (S (S
    (S (S (S (S (S (S (S (S (S (S (S (S (S (S (S (S (S (S (S (S (S (S (S (S
    (S (S (S (S (S (S (S (S (S (S (S (S (S (S (S (S (S (S (S (S (S (S (S (S
    (S (S (S (S (S (S (S (S (S (S (S (S (S (S (S (S (S (S (S (S (S (S (S (S
    (S (S (S (S (S (S (S (S (S (S (S (S (S (S (S (S (S (S (S (S (S (S (S (S
    (S (S (S (S (S (S (S (S (S (S (S (S (S (S (S (S (S (S (S (S (S (S (S (S
    (S (S (S (S (S (S (S (S (S (S (S (S (S (S (S (S (S (S (S (S (S (S (S (S
    (S (S (S (S (S (S (S (S (S (S (S (S (S (S (S (S (S (S (S (S (S (S (S (S
    (S (S (S (S (S (S (S (S (S (S (S (S (S (S (S (S (S (S (S (S (S (S (S (S
    (S (S (S (S (S (S (S (S (S (S (S (S (S (S (S (S (S (S (S (S (S (S (S (S
    (S (S (S (S (S (S (S (S (S (S (S (S (S (S (S (S (S (S (S (S (S (S (S (S
    (S (S (S (S (S (S (S (S (S (S (S (S (S (S (S (S (S (S (S (S (S (S (S (S
    (S (S (S (S (S (S (S (S (S (S (S (S (S (S (S (S (S (S (S (S (S (S (S (S
    (S (S (S (S (S (S (S (S (S (S (S (S (S (S (S (S (S (S (S (S (S (S (S (S
    (S (S (S (S (S (S (S (S (S (S (S (S (S (S (S (S (S (S (S (S (S (S (S (S
    (S (S (S (S (S (S (S (S (S (S (S (S (S (S (S (S (S (S (S (S (S (S (S (S
    (S (S (S (S (S (S (S (S (S (S (S (S (S (S (S (S (S (S (S (S (S (S (S (S
    (S (S (S (S (S (S (S (S (S (S (S (S (S (S (S (S (S (S (S (S (S (S (S (S
    (S (S (S (S (S (S (S (S (S (S (S (S (S (S (S (S (S (S (S (S (S (S (S (S
    (S (S (S (S (S (S (S (S (S (S (S (S (S (S (S (S (S (S (S (S (S (S (S (S
    (S (S (S (S (S (S (S (S (S (S (S (S (S (S (S (S (S (S (S (S (S (S (S (S
    (S (S (S (S (S (S (S (S (S (S (S (S (S (S (S (S (S (S (S (S (S (S (S (S
    (S (S (S (S (S (S (S (S (S (S (S (S (S (S (S (S (S (S (S (S (S (S (S (S
    (S (S (S (S (S (S (S (S (S (S (S (S (S (S (S (S (S (S (S (S (S (S (S (S
    (S (S (S (S (S (S (S (S (S (S (S (S (S (S (S (S (S (S (S (S (S (S (S (S
    (S (S (S (S (S (S (S (S (S (S (S (S (S (S (S (S (S (S (S (S (S (S (S (S
    (S (S (S (S (S (S (S (S (S (S (S (S (S (S (S (S (S (S (S (S (S (S (S (S
    (S (S (S (S (S (S (S (S (S (S (S (S (S (S (S (S (S (S (S (S (S (S (S (S
    (S (S (S (S (S (S (S (S (S (S (S (S (S (S (S (S (S (S (S (S (S (S (S (S
    (S (S (S (S (S (S (S (S (S (S (S (S (S (S (S (S (S (S (S (S (S (S (S (S
    (S (S (S (S (S (S (S (S (S (S (S (S (S (S (S (S (S (S (S (S (S (S (S (S
    (S (S (S (S (S (S (S (S (S (S (S (S (S (S (S (S (S (S (S (S (S (S (S (S
    (S (S (S (S (S (S (S (S (S (S (S (S (S (S (S (S (S (S (S (S (S (S (S (S
    (S (S (S (S (S (S (S (S (S (S (S (S (S (S (S (S (S (S (S (S (S (S (S (S
    (S (S (S (S (S (S (S (S (S (S (S (S (S (S (S (S (S (S (S (S (S (S (S (S
    (S (S (S (S (S (S (S (S (S (S (S (S (S (S (S (S (S (S (S (S (S (S (S (S
    (S (S (S (S (S (S (S (S (S (S (S (S (S (S (S (S (S (S (S (S (S (S (S (S
    (S (S (S (S (S (S (S (S (S (S (S (S (S (S (S (S (S (S (S (S (S (S (S (S
    (S (S (S (S (S (S (S (S (S (S (S (S (S (S (S (S (S (S (S (S (S (S (S (S
    (S (S (S (S (S (S (S (S (S (S (S (S (S (S (S (S (S (S (S (S (S (S (S (S
    (S (S (S (S (S (S (S (S (S (S (S (S (S (S (S (S (S (S (S (S (S (S (S (S
    (S (S (S (S (S (S (S (S (S (S (S (S (S (S (S (S (S (S (S (S (S (S (S (S
    (S (S (S (S (S (S (S (S (S (S (S (S (S (S (S (S (S (S (S (S (S (S (S (S
    (S (S (S (S (S (S (S (S (S (S (S (S (S (S (S (S (S (S (S (S (S (S (S (S
    (S (S (S (S (S (S (S (S (S (S (S (S (S (S (S (S (S (S (S (S (S (S (S (S
    (S (S (S (S (S (S (S (S (S (S (S (S (S (S (S (S (S (S (S (S (S (S (S (S
    (S (S (S (S (S (S (S (S (S (S (S (S (S (S (S (S (S (S (S (S (S (S (S (S
    (S (S (S (S (S (S (S (S (S (S (S (S (S (S (S (S (S (S (S (S (S (S (S (S
    (S (S (S (S (S (S (S (S (S (S (S (S (S (S (S (S (S (S (S (S (S (S (S (S
    (S (S (S (S (S (S (S (S (S (S (S (S (S (S (S (S (S (S (S (S (S (S (S (S
    (S (S (S (S (S (S (S (S (S (S (S (S (S (S (S (S (S (S (S (S (S (S (S (S
    (S (S (S (S (S (S (S (S (S (S (S (S (S (S (S (S (S (S (S (S (S (S (S (S
    (S (S (S (S (S (S (S (S (S (S (S (S (S (S (S (S (S (S (S (S (S (S (S (S
    (S (S (S (S (S (S (S (S (S (S (S (S (S (S (S (S (S (S (S (S (S (S (S (S
    (S (S (S (S (S (S (S (S (S (S (S (S (S (S (S (S (S (S (S (S (S (S (S (S
    (S (S (S (S (S (S (S (S (S (S (S (S (S (S (S (S (S (S (S (S (S (S (S (S
    (S (S (S (S (S (S (S (S (S (S (S (S (S (S (S (S (S (S (S (S (S (S (S (S
    (S (S (S (S (S (S (S (S (S (S (S (S (S (S (S (S (S (S (S (S (S (S (S (S
    (S (S (S (S (S (S (S (S (S (S (S (S (S (S (S (S (S (S (S (S (S (S (S (S
    (S (S (S (S (S (S (S (S (S (S (S (S (S (S (S (S (S (S (S (S (S (S (S (S
    (S (S (S (S (S (S (S (S (S (S (S (S (S (S (S (S (S (S (S (S (S (S (S (S
    (S (S (S (S (S (S (S (S (S (S (S (S (S (S (S (S (S (S (S (S (S (S (S (S
    (S (S (S (S (S (S (S (S (S (S (S (S (S (S (S (S (S (S (S (S (S (S (S (S
    (S (S (S (S (S (S (S (S (S (S (S (S (S (S (S (S (S (S (S (S (S (S (S (S
    (S (S (S (S (S (S (S (S (S (S (S (S (S (S (S (S (S (S (S (S (S (S (S (S
    (S (S (S (S (S (S (S (S (S (S (S (S (S (S (S (S (S (S (S (S (S (S (S (S
    (S (S (S (S (S (S (S (S (S (S (S (S (S (S (S (S (S (S (S (S (S (S (S (S
    (S (S (S (S (S (S (S (S (S (S (S (S (S (S (S (S (S (S (S (S (S (S (S (S
    (S (S (S (S (S (S (S (S (S (S (S (S (S (S (S (S (S (S (S (S (S (S (S (S
    (S (S (S (S (S (S (S (S (S (S (S (S (S (S (S (S (S (S (S (S (S (S (S (S
    (S (S (S (S (S (S (S (S (S (S (S (S (S (S (S (S (S (S (S (S (S (S (S (S
    (S (S (S (S (S (S (S (S (S (S (S (S (S (S (S (S (S (S (S (S (S (S (S (S
    (S (S (S (S (S (S (S (S (S (S (S (S (S (S (S (S (S (S (S (S (S (S (S (S
    (S (S (S (S (S (S (S (S (S (S (S (S (S (S (S (S (S (S (S (S (S (S (S (S
    (S (S (S (S (S (S (S (S (S (S (S (S (S (S (S (S (S (S (S (S (S (S (S (S
    (S (S (S (S (S (S (S (S (S (S (S (S (S (S (S (S (S (S (S (S (S (S (S (S
    (S (S (S (S (S (S (S (S (S (S (S (S (S (S (S (S (S (S (S (S (S (S (S (S
    (S (S (S (S (S (S (S (S (S (S (S (S (S (S (S (S (S (S (S (S (S (S (S (S
    (S (S (S (S (S (S (S (S (S (S (S (S (S (S (S (S (S (S (S (S (S (S (S (S
    (S (S (S (S (S (S (S (S (S (S (S (S (S (S (S (S (S (S (S (S (S (S (S (S
    (S (S (S (S (S (S (S (S (S (S (S (S (S (S (S (S (S (S (S (S (S (S (S (S
    (S (S (S (S (S (S (S (S (S (S (S (S (S (S (S (S (S (S (S (S (S (S (S (S
    (S (S (S (S (S (S (S (S (S (S (S (S (S (S (S (S (S (S (S (S (S (S (S (S
    (S (S (S (S (S (S (S (S (S (S (S (S (S (S (S (S (S (S (S (S (S (S (S (S
    (S (S (S (S (S (S (S (S (S (S (S (S (S (S (S (S (S (S (S (S (S (S (S (S
    (S (S (S (S (S (S (S (S (S (S (S (S (S (S (S (S (S (S (S (S (S (S (S (S
    (S (S (S (S (S (S (S (S (S (S (S (S (S (S (S (S (S (S (S (S (S (S (S (S
    (S (S (S (S (S (S (S (S (S (S (S (S (S (S (S (S (S (S (S (S (S (S (S (S
    (S (S (S (S (S (S (S (S (S (S (S (S (S (S (S (S (S (S (S (S (S (S (S (S
    (S (S (S (S (S (S (S (S (S (S (S (S (S (S (S (S (S (S (S (S (S (S (S (S
    (S (S (S (S (S (S (S (S (S (S (S (S (S (S (S (S (S (S (S (S (S (S (S (S
    (S (S (S (S (S (S (S (S (S (S (S (S (S (S (S (S (S (S (S (S (S (S (S (S
    (S (S (S (S (S (S (S (S (S (S (S (S (S (S (S (S (S (S (S (S (S (S (S (S
    (S (S (S (S (S (S (S (S (S (S (S (S (S (S (S (S (S (S (S (S (S (S (S (S
    (S (S (S (S (S (S (S (S (S (S (S (S (S (S (S (S (S (S (S (S (S (S (S (S
    (S (S (S (S (S (S (S (S (S (S (S (S (S (S (S (S (S (S (S (S (S (S (S (S
    (S (S (S (S (S (S (S (S (S (S (S (S (S (S (S (S (S (S (S (S (S (S (S (S
    (S (S (S (S (S (S (S (S (S (S (S (S (S (S (S (S (S (S (S (S (S (S (S (S
    (S (S (S (S (S (S (S (S (S (S (S (S (S (S (S (S (S (S (S (S (S (S (S (S
    (S (S (S (S (S (S (S (S (S (S (S (S (S (S (S (S (S (S (S (S (S (S (S (S
    (S (S (S (S (S (S (S (S (S (S (S (S (S (S (S (S (S (S (S (S (S (S (S (S
    (S (S (S (S (S (S (S (S (S (S (S (S (S (S (S (S (S (S (S (S (S (S (S (S
    (S (S (S (S (S (S (S (S (S (S (S (S (S (S (S (S (S (S (S (S (S (S (S (S
    (S (S (S (S (S (S (S (S (S (S (S (S (S (S (S (S (S (S (S (S (S (S (S (S
    (S (S (S (S (S (S (S (S (S (S (S (S (S (S (S (S (S (S (S (S (S (S (S (S
    (S (S (S (S (S (S (S (S (S (S (S (S (S (S (S (S (S (S (S (S (S (S (S (S
    (S (S (S (S (S (S (S (S (S (S (S (S (S (S (S (S (S (S (S (S (S (S (S (S
    (S (S (S (S (S (S (S (S (S (S (S (S (S (S (S (S (S (S (S (S (S (S (S (S
    (S (S (S (S (S (S (S (S (S (S (S (S (S (S (S (S (S (S (S (S (S (S (S (S
    (S (S (S (S (S (S (S (S (S (S (S (S (S (S (S (S (S (S (S (S (S (S (S (S
    (S (S (S (S (S (S (S (S (S (S (S (S (S (S (S (S (S (S (S (S (S (S (S (S
    (S (S (S (S (S (S (S (S (S (S (S (S (S (S (S (S (S (S (S (S (S (S (S (S
    (S (S (S (S (S (S (S (S (S (S (S (S (S (S (S (S (S (S (S (S (S (S (S (S
    (S (S (S (S (S (S (S (S (S (S (S (S (S (S (S (S (S (S (S (S (S (S (S (S
    (S (S (S (S (S (S (S (S (S (S (S (S (S (S (S (S (S (S (S (S (S (S (S (S
    (S (S (S (S (S (S (S (S (S (S (S (S (S (S (S (S (S (S (S (S (S (S (S (S
    (S (S (S (S (S (S (S (S (S (S (S (S (S (S (S (S (S (S (S (S (S (S (S (S
    (S (S (S (S (S (S (S (S (S (S (S (S (S (S (S (S (S (S (S (S (S (S (S (S
    (S (S (S (S (S (S (S (S (S (S (S (S (S (S (S (S (S (S (S (S (S (S (S (S
    (S (S (S (S (S (S (S (S (S (S (S (S (S (S (S (S (S (S (S (S (S (S (S (S
    (S (S (S (S (S (S (S (S (S (S (S (S (S (S (S (S (S (S (S (S (S (S (S (S
    (S (S (S (S (S (S (S (S (S (S (S (S (S (S (S (S (S (S (S (S (S (S (S (S
    (S (S (S (S (S (S (S (S (S (S (S (S (S (S (S (S (S (S (S (S (S (S (S (S
    (S (S (S (S (S (S (S (S (S (S (S (S (S (S (S (S (S (S (S (S (S (S (S (S
    (S (S (S (S (S (S (S (S (S (S (S (S (S (S (S (S (S (S (S (S (S (S (S (S
    (S (S (S (S (S (S (S (S (S (S (S (S (S (S (S (S (S (S (S (S (S (S (S (S
    (S (S (S (S (S (S (S (S (S (S (S (S (S (S (S (S (S (S (S (S (S (S (S (S
    (S (S (S (S (S (S (S (S (S (S (S (S (S (S (S (S (S (S (S (S (S (S (S (S
    (S (S (S (S (S (S (S (S (S (S (S (S (S (S (S (S (S (S (S (S (S (S (S (S
    (S (S (S (S (S (S (S (S (S (S (S (S (S (S (S (S (S (S (S (S (S (S (S (S
    (S (S (S (S (S (S (S (S (S (S (S (S (S (S (S (S (S (S (S (S (S (S (S (S
    (S (S (S (S (S (S (S (S (S (S (S (S (S (S (S (S (S (S (S (S (S (S (S (S
    (S (S (S (S (S (S (S (S (S (S (S (S (S (S (S (S (S (S (S (S (S (S (S (S
    (S (S (S (S (S (S (S (S (S (S (S (S (S (S (S (S (S (S (S (S (S (S (S (S
    (S (S (S (S (S (S (S (S (S (S (S (S (S (S (S (S (S (S (S (S (S (S (S (S
    (S (S (S (S (S (S (S (S (S (S (S (S (S (S (S (S (S (S (S (S (S (S (S (S
    (S (S (S (S (S (S (S (S (S (S (S (S (S (S (S (S (S (S (S (S (S (S (S (S
    (S (S (S (S (S (S (S (S (S (S (S (S (S (S (S (S (S (S (S (S (S (S (S (S
    (S (S (S (S (S (S (S (S (S (S (S (S (S (S (S (S (S (S (S (S (S (S (S (S
    (S (S (S (S (S (S (S (S (S (S (S (S (S (S (S (S (S (S (S (S (S (S (S (S
    (S (S (S (S (S (S (S (S (S (S (S (S (S (S (S (S (S (S (S (S (S (S (S (S
    (S (S (S (S (S (S (S (S (S (S (S (S (S (S (S (S (S (S (S (S (S (S (S (S
    (S (S (S (S (S (S (S (S (S (S (S (S (S (S (S (S (S (S (S (S (S (S (S (S
    (S (S (S (S (S (S (S (S (S (S (S (S (S (S (S (S (S (S (S (S (S (S (S (S
    (S (S (S (S (S (S (S (S (S (S (S (S (S (S (S (S (S (S (S (S (S (S (S (S
    (S (S (S (S (S (S (S (S (S (S (S (S (S (S (S (S (S (S (S (S (S (S (S (S
    (S (S (S (S (S (S (S (S (S (S (S (S (S (S (S (S (S (S (S (S (S (S (S (S
    (S (S (S (S (S (S (S (S (S (S (S (S (S (S (S (S (S (S (S (S (S (S (S (S
    (S (S (S (S (S (S (S (S (S (S (S (S (S (S (S (S (S (S (S (S (S (S (S (S
    (S (S (S (S (S (S (S (S (S (S (S (S (S (S (S (S (S (S (S (S (S (S (S (S
    (S (S (S (S (S (S (S (S (S (S (S (S (S (S (S (S (S (S (S (S (S (S (S (S
    (S (S (S (S (S (S (S (S (S (S (S (S (S (S (S (S (S (S (S (S (S (S (S (S
    (S (S (S (S (S (S (S (S (S (S (S (S (S (S (S (S (S (S (S (S (S (S (S (S
    (S (S (S (S (S (S (S (S (S (S (S (S (S (S (S (S (S (S (S (S (S (S (S (S
    (S (S (S (S (S (S (S (S (S (S (S (S (S (S (S (S (S (S (S (S (S (S (S (S
    (S (S (S (S (S (S (S (S (S (S (S (S (S (S (S (S (S (S (S (S (S (S (S (S
    (S (S (S (S (S (S (S (S (S (S (S (S (S (S (S (S (S (S (S (S (S (S (S (S
    (S (S (S (S (S (S (S (S (S (S (S (S (S (S (S (S (S (S (S (S (S (S (S (S
    (S (S (S (S (S (S (S (S (S (S (S (S (S (S (S (S (S (S (S (S (S (S (S (S
    (S (S (S (S (S (S (S (S (S (S (S (S (S (S (S (S (S (S (S (S (S (S (S (S
    (S (S (S (S (S (S (S (S (S (S (S (S (S (S (S (S (S (S (S (S (S (S (S (S
    (S (S (S (S (S (S (S (S (S (S (S (S (S (S (S (S (S (S (S (S (S (S (S (S
    (S (S (S (S (S (S (S (S (S (S (S (S (S (S (S (S (S (S (S (S (S (S (S (S
    (S (S (S (S (S (S (S (S (S (S (S (S (S (S (S (S (S (S (S (S (S (S (S (S
    (S (S (S (S (S (S (S (S (S (S (S (S (S (S (S (S (S (S (S (S (S (S (S (S
    (S (S (S (S (S (S (S (S (S (S (S (S (S (S (S (S (S (S (S (S (S (S (S (S
    (S (S (S (S (S (S (S (S (S (S (S (S (S (S (S (S (S (S (S (S (S (S (S (S
    (S (S (S (S (S (S (S (S (S (S (S (S (S (S (S (S (S (S (S (S (S (S (S (S
    (S (S (S (S (S (S (S (S (S (S (S (S (S (S (S (S (S (S (S (S (S (S (S (S
    (S (S (S (S (S (S (S (S (S (S (S (S (S (S (S (S (S (S (S (S (S (S (S (S
    (S (S (S (S (S (S (S (S (S (S (S (S (S (S (S (S (S (S (S (S (S (S (S (S
    (S (S (S (S (S (S (S (S (S (S (S (S (S (S (S (S (S (S (S (S (S (S (S (S
    (S (S (S (S (S (S (S (S (S (S (S (S (S (S (S (S (S (S (S (S (S (S (S (S
    (S (S (S (S (S (S (S (S (S (S (S (S (S (S (S (S (S (S (S (S (S (S (S (S
    (S (S (S (S (S (S (S (S (S (S (S (S (S (S (S (S (S (S (S (S (S (S (S (S
    (S (S (S (S (S (S (S (S (S (S (S (S (S (S (S (S (S (S (S (S (S (S (S (S
    (S (S (S
    O)))))))))))))))))))))))))))))))))))))))))))))))))))))))))))))))))))))))))))))))))))))))))))))))))))))))))))))))))))))))))))))))))))))))))))))))))))))))))))))))))))))))))))))))))))))))))))))))))))))))))))))))))))))))))))))))))))))))))))))))))))))))))))))))))))))))))))))))))))))))))))))))))))))))))))))))))))))))))))))))))))))))))))))))))))))))))))))))))))))))))))))))))))))))))))))))))))))))))))))))))))))))))))))))))))))))))))))))))))))))))))))))))))))))))))))))))))))))))))))))))))))))))))))))))))))))))))))))))))))))))))))))))))))))))))))))))))))))))))))))))))))))))))))))))))))))))))))))))))))))))))))))))))))))))))))))))))))))))))))))))))))))))))))))))))))))))))))))))))))))))))))))))))))))))))))))))))))))))))))))))))))))))))))))))))))))))))))))))))))))))))))))))))))))))))))))))))))))))))))))))))))))))))))))))))))))))))))))))))))))))))))))))))))))))))))))))))))))))))))))))))))))))))))))))))))))))))))))))))))))))))))))))))))))))))))))))))))))))))))))))))))))))))))))))))))))))))))))))))))))))))))))))))))))))))))))))))))))))))))))))))))))))))))))))))))))))))))))))))))))))))))))))))))))))))))))))))))))))))))))))))))))))))))))))))))))))))))))))))))))))))))))))))))))))))))))))))))))))))))))))))))))))))))))))))))))))))))))))))))))))))))))))))))))))))))))))))))))))))))))))))))))))))))))))))))))))))))))))))))))))))))))))))))))))))))))))))))))))))))))))))))))))))))))))))))))))))))))))))))))))))))))))))))))))))))))))))))))))))))))))))))))))))))))))))))))))))))))))))))))))))))))))))))))))))))))))))))))))))))))))))))))))))))))))))))))))))))))))))))))))))))))))))))))))))))))))))))))))))))))))))))))))))))))))))))))))))))))))))))))))))))))))))))))))))))))))))))))))))))))))))))))))))))))))))))))))))))))))))))))))))))))))))))))))))))))))))))))))))))))))))))))))))))))))))))))))))))))))))))))))))))))))))))))))))))))))))))))))))))))))))))))))))))))))))))))))))))))))))))))))))))))))))))))))))))))))))))))))))))))))))))))))))))))))))))))))))))))))))))))))))))))))))))))))))))))))))))))))))))))))))))))))))))))))))))))))))))))))))))))))))))))))))))))))))))))))))))))))))))))))))))))))))))))))))))))))))))))))))))))))))))))))))))))))))))))))))))))))))))))))))))))))))))))))))))))))))))))))))))))))))))))))))))))))))))))))))))))))))))))))))))))))))))))))))))))))))))))))))))))))))))))))))))))))))))))))))))))))))))))))))))))))))))))))))))))))))))))))))))))))))))))))))))))))))))))))))))))))))))))))))))))))))))))))))))))))))))))))))))))))))))))))))))))))))))))))))))))))))))))))))))))))))))))))))))))))))))))))))))))))))))))))))))))))))))))))))))))))))))))))))))))))))))))))))))))))))))))))))))))))))))))))))))))))))))))))))))))))))))))))))))))))))))))))))))))))))))))))))))))))))))))))))))))))))))))))))))))))))))))))))))))))))))))))))))))))))))))))))))))))))))))))))))))))))))))))))))))))))))))))))))))))))))))))))))))))))))))))))))))))))))))))))))))))))))))))))))))))))))))))))))))))))))))))))))))))))))))))))))))))))))))))))))))))))))))))))))))))))))))))))))))))))))))))))))))))))))))))))))))))))))))))))))))))))))))))))))))))))))))))))))))))))))))))))))))))))))))))))))))))))))))))))))))))))))))))))))))))))))))))))))))))))))))))))))))))))))))))))))))))))))))))))))))))))))))))))))))))))))))))))))))))))))))))))))))))))))))))))))))))))))))))))))))))))))))))))))))))))))))))))))))))))))))))))))))))))))))))))))))))))))))))))))))))))))))))))))))))))))))))))))))))))))))))))))))))))))))))))))))))))))))))))))))))))))))))))))))))))))))))))))))))))))))))))))))))))))))))))))))))))))))))))))))))))))))))))))))))))))))))))))))))))))))))))))))))))))))))))))))))))))))))))))))))))))))))))))))))))))))))))))))))))))))))))))))))))))))))))))))))))))))))))))))))))))))))))))))))))))))))))))))))))))))))))))))))))))))))))))))))))))))))))))))))))))))))))))))))))))))))))))))))))))))))))))))))))))))))))))))))))))))))))))))))))))))))))))))))))))))))))))))))))))))))))))))))))))))))))))))))))))))))))))))))))))))))))))))))))))))))))))))))))))))))))))))))))))))))))))))))))))))))))))))))))))))))))))))))))))))))))))))))))))))))))))))))))))))))))))))))))))))))))))))))))))))))))))))))))))))))))))))))))))))))))))))))))))))))))))))))))))))))))))))))))))))))))))))))))))))))))))))))))))))))))))))))))))))))))))))))))))))))))))))))))))))))))))))))))))))))))))))))))))))))))))))))))))))))))))))))))))))))))))))))))

(** val conv_int : char list -> z tres0 **)

let conv_int ds =
  if Nat.leb (slen ds) iNT_MAX_STR_DIGITS
  then TOk0 (dec_val ds)
  else TValueError

(** val int_str : z -> char list tres0 **)

let int_str z0 =
  if Nat.leb (slen (show_Z (Z.abs z0))) iNT_MAX_STR_DIGITS
  then TOk0 (show_Z z0)
  else TValueError

(** val lstrip0 : char list -> char list **)

let rec lstrip0 s = match s with
| [] -> []
| c::r -> if (=) c '0' then lstrip0 r else s

(** val rstrip0 : char list -> char list **)

let rec rstrip0 = function
| [] -> []
| c::r ->
  let r' = rstrip0 r in
  (match r' with
   | [] -> if (=) c '0' then [] else c::[]
   | _::_ -> c::r')

(** val float_safe : char list -> char list -> bool **)

let float_safe i f =
  let f' = rstrip0 f in
  (&&)
    (Nat.leb (slen (lstrip0 (append i f'))) (S (S (S (S (S (S (S (S (S (S (S
      (S (S (S (S O))))))))))))))))
    (Nat.leb (slen f') (S (S (S (S (S (S (S (S (S (S (S (S (S (S (S (S (S (S
      (S (S (S (S (S (S (S (S (S (S (S (S (S (S (S (S (S (S (S (S (S (S (S (S
      (S (S (S (S (S (S (S (S (S (S (S (S (S (S (S (S (S (S (S (S (S (S (S (S
      (S (S (S (S (S (S (S (S (S (S (S (S (S (S (S (S (S (S (S (S (S (S (S (S
      (S (S (S (S (S (S (S (S (S (S (S (S (S (S (S (S (S (S (S (S (S (S (S (S
      (S (S (S (S (S (S (S (S (S (S (S (S (S (S (S (S (S (S (S (S (S (S (S (S
      (S (S (S (S (S (S (S (S (S (S (S (S (S (S (S (S (S (S (S (S (S (S (S (S
      (S (S (S (S (S (S (S (S (S (S (S (S (S (S (S (S (S (S (S (S (S (S (S (S
      (S (S (S (S (S (S (S (S (S (S (S (S (S (S (S (S (S (S (S (S (S (S (S (S
      (S (S (S (S (S (S (S (S (S (S (S (S (S (S (S (S (S (S (S (S (S (S (S (S
      (S (S (S (S (S (S (S (S (S (S (S (S (S (S (S (S (S (S (S (S (S (S (S (S
      (S (S (S (S (S (S (S (S (S (S (S (S (S (S (S (S (S (S (S (S (S (S (S (S
      (S (S (S (S (S (S (S (S (S (S (S (S (S (S (S (S (S (S
      O)))))))))))))))))))))))))))))))))))))))))))))))))))))))))))))))))))))))))))))))))))))))))))))))))))))))))))))))))))))))))))))))))))))))))))))))))))))))))))))))))))))))))))))))))))))))))))))))))))))))))))))))))))))))))))))))))))))))))))))))))))))))))))))))))))))))))))))))))))))))))))))))))))))))))))))

(** val dval : char list -> char list -> q **)

let dval i f =
  let k = Z.of_nat (slen f) in
  qred { qnum =
    (Z.add (Z.mul (dec_val i) (Z.pow (Zpos (XO (XI (XO XH)))) k)) (dec_val f));
    qden = (Z.to_pos (Z.pow (Zpos (XO (XI (XO XH)))) k)) }

(** val fdig : nat -> z -> z -> char list option **)

let rec fdig fuel r den =
  if Z.eqb r Z0
  then Some []
  else (match fuel with
        | O -> None
        | S f ->
          (match fdig f (Z.modulo (Z.mul r (Zpos (XO (XI (XO XH))))) den) den with
           | Some s ->
             Some
               ((digit_char (Z.div (Z.mul r (Zpos (XO (XI (XO XH))))) den))::s)
           | None -> None))

(** val fDIG_FUEL : nat **)

let fDIG_FUEL =
  S (S (S (S (S (S (S (S (S (S (S (S (S (S (S (S (S (S (S (S (S (S (S (S
    O)))))))))))))))))))))))

(** val frac_str : q -> char list tres0 **)

let frac_str x =
  let n0 = x.qnum in
  let d = Zpos x.qden in
  if qle_bool { qnum = (Zpos XH); qden = (XO (XO (XO (XO (XI (XO (XO (XO (XI
       (XI (XI (XO (XO XH))))))))))))) } x
  then (match fdig fDIG_FUEL (Z.modulo n0 d) d with
        | Some f ->
          let i = show_Z (Z.div n0 d) in
          if float_safe i f
          then TOk0 (append i (append (','::[]) f))
          else TUnmodelled
        | None -> TUnmodelled)
  else TUnmodelled

(** val z_unit : z -> char list -> char list tres0 **)

let z_unit z0 u =
  if Z.eqb z0 Z0 then TOk0 [] else tmap (fun s -> append s u) (int_str z0)

(** val q_unit : q -> char list -> char list tres0 **)

let q_unit x u =
  let r = qred x in
  if qeq_bool r { qnum = Z0; qden = XH }
  then TOk0 []
  else if Z.eqb (Zpos r.qden) (Zpos XH)
       then if float_safe (show_Z (Z.abs r.qnum)) []
            then TOk0 (append (show_Z r.qnum) u)
            else TUnmodelled
       else if Z.ltb Z0 r.qnum
            then tmap (fun s -> append s u) (frac_str r)
            else tmap (fun s -> append ('-'::[]) (append s u))
                   (frac_str (qred (qopp r)))

(** val dur_str_body : dur -> char list tres0 **)

let dur_str_body = function
| DW w -> tmap (fun s -> append ('P'::[]) (append s ('W'::[]))) (int_str w)
| DU (y, mo, d, h, mi, s) ->
  tbind0 (z_unit y ('Y'::[])) (fun ys ->
    tbind0 (z_unit mo ('M'::[])) (fun mos ->
      tbind0 (z_unit d ('D'::[])) (fun ds ->
        tbind0 (q_unit h ('H'::[])) (fun hs ->
          tbind0 (q_unit mi ('M'::[])) (fun mis ->
            tbind0 (q_unit s ('S'::[])) (fun ss ->
              let time = append hs (append mis ss) in
              TOk0
              (append ('P'::[])
                (append ys
                  (append mos
                    (append ds
                      (if str_nonempty time then append ('T'::[]) time else [])))))))))))

(** val qsgn : q -> z **)

let qsgn x =
  Z.sgn x.qnum

(** val fully_negative : dur -> bool **)

let fully_negative = function
| DW w -> Z.ltb w Z0
| DU (y, mo, d, h, mi, s) ->
  let l =
    (Z.sgn y) :: ((Z.sgn mo) :: ((Z.sgn d) :: ((qsgn h) :: ((qsgn mi) :: (
    (qsgn s) :: [])))))
  in
  (&&) (forallb (fun t -> Z.leb t Z0) l) (existsb (fun t -> Z.ltb t Z0) l)

(** val dur_str : dur -> char list tres0 **)

let dur_str x =
  if negb (dur_bool x)
  then TOk0 ('P'::('0'::('Y'::[])))
  else if fully_negative x
       then tmap (fun s -> append ('-'::[]) s) (dur_str_body (dur_abs x))
       else dur_str_body x

(** val at_end : char list -> bool **)

let at_end = function
| [] -> true
| c::s0 -> (match s0 with
            | [] -> (=) c nL
            | _::_ -> false)

(** val uncons : char -> char list -> char list option **)

let uncons c = function
| [] -> None
| a::r -> if (=) a c then Some r else None

(** val take_unit : char -> char list -> char list option * char list **)

let take_unit c s =
  let (ds, r) = span_digits s in
  if str_nonempty ds
  then (match uncons c r with
        | Some r' -> ((Some ds), r')
        | None -> (None, s))
  else (None, s)

(** val match_date :
    char list -> ((char list option * char list option) * char list
    option) * char list **)

let match_date s =
  let (y, r1) = take_unit 'Y' s in
  let (mo, r2) = take_unit 'M' r1 in
  let (d, r3) = take_unit 'D' r2 in (((y, mo), d), r3)

(** val last_split :
    char -> char list -> (char list -> 'a1 option) -> (char list * 'a1) option **)

let rec last_split c s k =
  match s with
  | [] -> None
  | a::r ->
    if (=) a nL
    then None
    else (match last_split c r k with
          | Some p -> let (pre, x) = p in Some ((a::pre), x)
          | None ->
            if (=) a c
            then (match k r with
                  | Some x -> Some ([], x)
                  | None -> None)
            else None)

(** val opt_group :
    char -> char list -> (char list -> 'a1 option) -> (char list
    option * 'a1) option **)

let opt_group c s k =
  let skip = match k s with
             | Some x -> Some (None, x)
             | None -> None in
  (match s with
   | [] -> skip
   | d::r ->
     if is_digit d
     then (match last_split c r k with
           | Some p -> let (pre, x) = p in Some ((Some (d::pre)), x)
           | None -> skip)
     else skip)

(** val match_time :
    char list -> ((char list option * char list option) * char list option)
    option **)

let match_time s =
  match opt_group 'H' s (fun r1 ->
          opt_group 'M' r1 (fun r2 ->
            opt_group 'S' r2 (fun r3 -> if at_end r3 then Some () else None))) with
  | Some p ->
    let (h, p0) = p in
    let (mi, p1) = p0 in let (se, _) = p1 in Some ((h, mi), se)
  | None -> None

type groups = { g_years : char list option; g_months : char list option;
                g_days : char list option; g_hours : char list option;
                g_minutes : char list option; g_seconds : char list option;
                g_weeks : char list option }

(** val re1 : char list -> groups option **)

let re1 s =
  match uncons 'P' s with
  | Some r ->
    let (p, r3) = match_date r in
    let (p0, d) = p in
    let (y, mo) = p0 in
    if at_end r3
    then Some { g_years = y; g_months = mo; g_days = d; g_hours = None;
           g_minutes = None; g_seconds = None; g_weeks = None }
    else None
  | None -> None

(** val re2 : char list -> groups option **)

let re2 s =
  match uncons 'P' s with
  | Some r ->
    let (p, r3) = match_date r in
    let (p0, d) = p in
    let (y, mo) = p0 in
    (match uncons 'T' r3 with
     | Some t ->
       (match match_time t with
        | Some p1 ->
          let (p2, se) = p1 in
          let (h, mi) = p2 in
          Some { g_years = y; g_months = mo; g_days = d; g_hours = h;
          g_minutes = mi; g_seconds = se; g_weeks = None }
        | None -> None)
     | None -> None)
  | None -> None

(** val re3 : char list -> groups option **)

let re3 s =
  match uncons 'P' s with
  | Some r ->
    let (ds, r1) = span_digits r in
    if str_nonempty ds
    then (match uncons 'W' r1 with
          | Some r2 ->
            if at_end r2
            then Some { g_years = None; g_months = None; g_days = None;
                   g_hours = None; g_minutes = None; g_seconds = None;
                   g_weeks = (Some ds) }
            else None
          | None -> None)
    else None
  | None -> None

(** val comma_to_point : char list -> char list **)

let rec comma_to_point = function
| [] -> []
| c::r -> (if (=) c ',' then '.' else c)::(comma_to_point r)

(** val is_ws : char -> bool **)

let is_ws c =
  let n0 = n_of_ascii c in
  (||)
    ((&&) (N.leb (Npos (XI (XO (XO XH)))) n0)
      (N.leb n0 (Npos (XI (XO (XI XH))))))
    (N.eqb n0 (Npos (XO (XO (XO (XO (XO XH)))))))

(** val dp_rest : char list -> char list **)

let rec dp_rest s = match s with
| [] -> []
| c::r ->
  if is_digit c
  then dp_rest r
  else if (=) c '_'
       then (match r with
             | [] -> s
             | c2::r2 -> if is_digit c2 then dp_rest r2 else s)
       else s

(** val digitpart : char list -> char list option **)

let digitpart = function
| [] -> None
| c::r -> if is_digit c then Some (dp_rest r) else None

(** val float_accepts : char list -> bool **)

let float_accepts v =
  match digitpart v with
  | Some r1 ->
    let r2 =
      match r1 with
      | [] -> r1
      | a::r ->
        (* If this appears, you're using Ascii internals. Please don't *)
 (fun f c ->
  let n = Char.code c in
  let h i = (n land (1 lsl i)) <> 0 in
  f (h 0) (h 1) (h 2) (h 3) (h 4) (h 5) (h 6) (h 7))
          (fun b b0 b1 b2 b3 b4 b5 b6 ->
          if b
          then r1
          else if b0
               then if b1
                    then if b2
                         then if b3
                              then r1
                              else if b4
                                   then if b5
                                        then r1
                                        else if b6
                                             then r1
                                             else (match digitpart r with
                                                   | Some r' -> r'
                                                   | None -> r)
                                   else r1
                         else r1
                    else r1
               else r1)
          a
    in
    let r3 =
      match r2 with
      | [] -> r2
      | e::r ->
        if (||) ((=) e 'e') ((=) e 'E')
        then let r' =
               match r with
               | [] -> r
               | sg::r'' -> if (||) ((=) sg '+') ((=) sg '-') then r'' else r
             in
             (match digitpart r' with
              | Some r'' -> r''
              | None -> r2)
        else r2
    in
    str_all is_ws r3
  | None -> false

(** val conv_float : char list -> q tres0 **)

let conv_float s =
  let v = comma_to_point s in
  let other = if float_accepts v then TUnmodelled else TValueError in
  let plain = fun i f ->
    if float_safe i f then TOk0 (dval i f) else TUnmodelled
  in
  let (i, r) = span_digits v in
  if str_nonempty i
  then (match r with
        | [] -> plain i []
        | a::fr ->
          if (=) a '.'
          then let (f, r2) = span_digits fr in
               if str_nonempty r2 then other else plain i f
          else other)
  else other

(** val conv_oint : char list option -> z tres0 **)

let conv_oint = function
| Some ds -> conv_int ds
| None -> TOk0 Z0

(** val conv_ofloat : char list option -> q tres0 **)

let conv_ofloat = function
| Some s -> conv_float s
| None -> TOk0 { qnum = Z0; qden = XH }

(** val is_verr : 'a1 tres0 -> bool **)

let is_verr = function
| TValueError -> true
| _ -> false

(** val convert : z -> groups -> dur tres0 **)

let convert sg g =
  let y = conv_oint g.g_years in
  let mo = conv_oint g.g_months in
  let d = conv_oint g.g_days in
  let w = conv_oint g.g_weeks in
  let h = conv_ofloat g.g_hours in
  let mi = conv_ofloat g.g_minutes in
  let s = conv_ofloat g.g_seconds in
  if (||)
       ((||)
         ((||)
           ((||) ((||) ((||) (is_verr y) (is_verr mo)) (is_verr d))
             (is_verr h)) (is_verr mi)) (is_verr s)) (is_verr w)
  then TValueError
  else tbind0 y (fun y0 ->
         tbind0 mo (fun mo0 ->
           tbind0 d (fun d0 ->
             tbind0 h (fun h0 ->
               tbind0 mi (fun mi0 ->
                 tbind0 s (fun s0 ->
                   tbind0 w (fun w0 -> TOk0
                     (dur_make (Z.mul y0 sg) (Z.mul mo0 sg) (Z.mul w0 sg)
                       (Z.mul d0 sg) (qmul h0 (qz sg)) (qmul mi0 (qz sg))
                       (qmul s0 (qz sg))))))))))

(** val stake : nat -> char list -> char list **)

let rec stake n0 s =
  match n0 with
  | O -> []
  | S n' -> (match s with
             | [] -> []
             | c::r -> c::(stake n' r))

(** val sdrop : nat -> char list -> char list **)

let rec sdrop n0 s =
  match n0 with
  | O -> s
  | S n' -> (match s with
             | [] -> s
             | _::r -> sdrop n' r)

(** val alt_make :
    char list -> char list -> char list -> char list -> char list ->
    char list -> dur tres0 **)

let alt_make y mo d h mi s =
  TOk0
    (dur_make (dec_val y) (dec_val mo) Z0 (dec_val d) (qz (dec_val h))
      (qz (dec_val mi)) (qz (dec_val s)))

(** val alt_time_basic :
    char list -> ((char list * char list) * char list) option **)

let alt_time_basic t =
  let (ds, r) = span_digits t in
  if str_nonempty r
  then None
  else if Nat.eqb (slen ds) (S (S (S (S (S (S O))))))
       then Some (((stake (S (S O)) ds),
              (stake (S (S O)) (sdrop (S (S O)) ds))),
              (sdrop (S (S (S (S O)))) ds))
       else None

(** val alt_time_ext :
    char list -> ((char list * char list) * char list) option **)

let alt_time_ext t =
  let (h, r1) = span_digits t in
  (match uncons ':' r1 with
   | Some t2 ->
     let (mi, r2) = span_digits t2 in
     (match uncons ':' r2 with
      | Some t3 ->
        let (s, r3) = span_digits t3 in
        if str_nonempty r3
        then None
        else if (&&)
                  ((&&) (Nat.eqb (slen h) (S (S O)))
                    (Nat.eqb (slen mi) (S (S O))))
                  (Nat.eqb (slen s) (S (S O)))
             then Some ((h, mi), s)
             else None
      | None -> None)
   | None -> None)

(** val alt_basic : char list -> char list -> dur tres0 **)

let alt_basic a r =
  match uncons 'T' r with
  | Some t ->
    (match alt_time_basic t with
     | Some p ->
       let (p0, s) = p in
       let (h, mi) = p0 in
       if Nat.eqb (slen a) (S (S (S (S (S (S (S (S O))))))))
       then alt_make (stake (S (S (S (S O)))) a)
              (stake (S (S O)) (sdrop (S (S (S (S O)))) a))
              (sdrop (S (S (S (S (S (S O)))))) a) h mi s
       else if Nat.eqb (slen a) (S (S (S (S (S (S (S O)))))))
            then alt_make (stake (S (S (S (S O)))) a) ('0'::[])
                   (sdrop (S (S (S (S O)))) a) h mi s
            else TUnmodelled
     | None -> TUnmodelled)
  | None ->
    (match uncons 'W' r with
     | Some r1 ->
       let (wd, r2) = span_digits r1 in
       (match uncons 'T' r2 with
        | Some t ->
          (match alt_time_basic t with
           | Some _ ->
             if (&&) (Nat.eqb (slen a) (S (S (S (S O)))))
                  (Nat.eqb (slen wd) (S (S (S O))))
             then TSyntax
             else TUnmodelled
           | None -> TUnmodelled)
        | None -> TUnmodelled)
     | None -> TUnmodelled)

(** val alt_extended : char list -> char list -> dur tres0 **)

let alt_extended a r1 =
  match uncons 'W' r1 with
  | Some r2 ->
    let (w, r3) = span_digits r2 in
    (match uncons '-' r3 with
     | Some r4 ->
       let (dd, r5) = span_digits r4 in
       (match uncons 'T' r5 with
        | Some t ->
          (match alt_time_ext t with
           | Some _ ->
             if (&&) (Nat.eqb (slen w) (S (S O))) (Nat.eqb (slen dd) (S O))
             then TSyntax
             else TUnmodelled
           | None -> TUnmodelled)
        | None -> TUnmodelled)
     | None -> TUnmodelled)
  | None ->
    let (b, r2) = span_digits r1 in
    (match uncons 'T' r2 with
     | Some t ->
       (match alt_time_ext t with
        | Some p ->
          let (p0, s) = p in
          let (h, mi) = p0 in
          if Nat.eqb (slen b) (S (S (S O)))
          then alt_make a ('0'::[]) b h mi s
          else TUnmodelled
        | None -> TUnmodelled)
     | None ->
       (match uncons '-' r2 with
        | Some r3 ->
          let (c, r4) = span_digits r3 in
          (match uncons 'T' r4 with
           | Some t ->
             (match alt_time_ext t with
              | Some p ->
                let (p0, s) = p in
                let (h, mi) = p0 in
                if (&&) (Nat.eqb (slen b) (S (S O)))
                     (Nat.eqb (slen c) (S (S O)))
                then alt_make a b c h mi s
                else TUnmodelled
              | None -> TUnmodelled)
           | None -> TUnmodelled)
        | None -> TUnmodelled))

(** val alt_forms : char list -> dur tres0 **)

let alt_forms e =
  let (a, r) = span_digits e in
  (match uncons '-' r with
   | Some r1 ->
     if Nat.eqb (slen a) (S (S (S (S O))))
     then alt_extended a r1
     else TUnmodelled
   | None -> alt_basic a r)

(** val eXPECTED_ALT_DATE_ALPHABET : char list **)

let eXPECTED_ALT_DATE_ALPHABET =
  '+'::('-'::('0'::('1'::('2'::('3'::('4'::('5'::('6'::('7'::('8'::('9'::('W'::[]))))))))))))

(** val eXPECTED_ALT_TIME_ALPHABET : char list **)

let eXPECTED_ALT_TIME_ALPHABET =
  ','::('-'::('.'::('0'::('1'::('2'::('3'::('4'::('5'::('6'::('7'::('8'::('9'::(':'::[])))))))))))))

(** val eXPECTED_ALT_ZONE_ALPHABET : char list **)

let eXPECTED_ALT_ZONE_ALPHABET =
  '+'::('-'::('0'::('1'::('2'::('3'::('4'::('5'::('6'::('7'::('8'::('9'::(':'::('Z'::[])))))))))))))

(** val str_mem : char -> char list -> bool **)

let rec str_mem c = function
| [] -> false
| a::r -> (||) ((=) a c) (str_mem c r)

(** val has_foreign : char list -> char list -> bool **)

let has_foreign alphabet s =
  negb (str_all (fun c -> (||) ((=) c nL) (str_mem c alphabet)) s)

(** val alt_reject : char list -> dur tres0 **)

let alt_reject e =
  match split_on 'T' e [] with
  | [] -> TValueError
  | d :: l ->
    (match l with
     | [] ->
       if has_foreign eXPECTED_ALT_DATE_ALPHABET d
       then TSyntax
       else TUnmodelled
     | t :: l0 ->
       (match l0 with
        | [] ->
          if (||) (has_foreign eXPECTED_ALT_DATE_ALPHABET d)
               (has_foreign
                 (append eXPECTED_ALT_TIME_ALPHABET
                   eXPECTED_ALT_ZONE_ALPHABET) t)
          then TSyntax
          else TUnmodelled
        | _ :: _ -> TValueError))

(** val alt_parse : char list -> dur tres0 **)

let alt_parse e =
  match alt_forms e with
  | TUnmodelled -> alt_reject e
  | x -> x

(** val dur_parse : char list -> dur tres0 **)

let dur_parse expr =
  if negb (str_all is_ascii7 expr)
  then TUnmodelled
  else (match uncons '-' expr with
        | Some r ->
          let sg = Zneg XH in
          (match re1 r with
           | Some g -> convert sg g
           | None ->
             (match re2 r with
              | Some g -> convert sg g
              | None ->
                (match re3 r with
                 | Some g -> convert sg g
                 | None ->
                   (match uncons 'P' r with
                    | Some r0 ->
                      if Z.eqb sg (Zneg XH) then TSyntax else alt_parse r0
                    | None -> TSyntax))))
        | None ->
          let sg = Zpos XH in
          (match re1 expr with
           | Some g -> convert sg g
           | None ->
             (match re2 expr with
              | Some g -> convert sg g
              | None ->
                (match re3 expr with
                 | Some g -> convert sg g
                 | None ->
                   (match uncons 'P' expr with
                    | Some r ->
                      if Z.eqb sg (Zneg XH) then TSyntax else alt_parse r
                    | None -> TSyntax)))))

(** val hex_val : char -> n option **)

let hex_val c =
  let n0 = n_of_ascii c in
  if (&&) (N.leb (Npos (XO (XO (XO (XO (XI XH)))))) n0)
       (N.leb n0 (Npos (XI (XO (XO (XI (XI XH)))))))
  then Some (N.sub n0 (Npos (XO (XO (XO (XO (XI XH)))))))
  else if (&&) (N.leb (Npos (XI (XO (XO (XO (XO (XO XH))))))) n0)
            (N.leb n0 (Npos (XO (XI (XI (XO (XO (XO XH))))))))
       then Some (N.sub n0 (Npos (XI (XI (XI (XO (XI XH)))))))
       else if (&&) (N.leb (Npos (XI (XO (XO (XO (XO (XI XH))))))) n0)
                 (N.leb n0 (Npos (XO (XI (XI (XO (XO (XI XH))))))))
            then Some (N.sub n0 (Npos (XI (XI (XI (XO (XI (XO XH))))))))
            else None

(** val pct_decode : char list -> char list **)

let rec pct_decode = function
| [] -> []
| c::r ->
  if (=) c '%'
  then (match r with
        | [] -> c::(pct_decode r)
        | a::s0 ->
          (match s0 with
           | [] -> c::(pct_decode r)
           | b::r' ->
             (match hex_val a with
              | Some x ->
                (match hex_val b with
                 | Some y ->
                   (ascii_of_N
                     (N.add (N.mul (Npos (XO (XO (XO (XO XH))))) x) y))::
                     (pct_decode r')
                 | None -> c::(pct_decode r))
              | None -> c::(pct_decode r))))
  else c::(pct_decode r)

(** val sh_tres_dur : dur tres0 -> char list **)

let sh_tres_dur = function
| TOk0 d -> sh_dur d
| TUnmodelled ->
  'U'::('N'::('M'::('O'::('D'::('E'::('L'::('L'::('E'::('D'::[])))))))))
| _ -> 'E'::('R'::('R'::[]))

(** val sh_tres_str : char list tres0 -> char list **)

let sh_tres_str = function
| TOk0 s -> s
| TUnmodelled ->
  'U'::('N'::('M'::('O'::('D'::('E'::('L'::('L'::('E'::('D'::[])))))))))
| _ -> 'E'::('R'::('R'::[]))

(** val rTextTok : char list rd **)

let rTextTok = function
| [] -> Some ([], [])
| t :: r -> Some ((pct_decode t), r)

(** val dround_out : dur -> char list **)

let dround_out d =
  match dur_str d with
  | TOk0 text ->
    (match dur_parse text with
     | TOk0 d' ->
       unwords
         (text :: ((';'::[]) :: ((sh_dur d') :: ((';'::[]) :: (('e'::('q'::[])) :: (
         (sh_bool (dur_eqb d' d)) :: ((';'::[]) :: (('f'::('i'::('x'::[]))) :: (
         (sh_bool
           (match dur_str d' with
            | TOk0 t2 -> eqb0 t2 text
            | _ -> false)) :: [])))))))))
     | x -> unwords (text :: ((';'::[]) :: ((sh_tres_dur x) :: []))))
  | x -> sh_tres_str x

(** val ops_durtext : (char list * char list rd) list **)

let ops_durtext =
  (('d'::('s'::('t'::('r'::[])))),
    (bind rDur (fun d -> ret (sh_tres_str (dur_str d))))) :: ((('d'::('p'::('a'::('r'::('s'::('e'::[])))))),
    (bind rTextTok (fun t -> ret (sh_tres_dur (dur_parse t))))) :: ((('d'::('r'::('o'::('u'::('n'::('d'::[])))))),
    (bind rDur (fun d -> ret (dround_out d)))) :: []))

(** val run_line : char list -> char list **)

let run_line line =
  run_ops (app op_table ops_durtext) line
