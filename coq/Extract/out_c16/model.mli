
val negb : bool -> bool

type nat =
| O
| S of nat

val fst : ('a1 * 'a2) -> 'a1

val snd : ('a1 * 'a2) -> 'a2

val length : 'a1 list -> nat

type uint =
| Nil
| D0 of uint
| D1 of uint
| D2 of uint
| D3 of uint
| D4 of uint
| D5 of uint
| D6 of uint
| D7 of uint
| D8 of uint
| D9 of uint

type signed_int =
| Pos of uint
| Neg of uint

val revapp : uint -> uint -> uint

val rev : uint -> uint

module Little :
 sig
  val double : uint -> uint

  val succ_double : uint -> uint
 end

type positive =
| XI of positive
| XO of positive
| XH

type z =
| Z0
| Zpos of positive
| Zneg of positive

module Pos :
 sig
  val succ : positive -> positive

  val of_succ_nat : nat -> positive

  val to_little_uint : positive -> uint

  val to_uint : positive -> uint
 end

val nth : nat -> 'a1 list -> 'a1 -> 'a1

val map : ('a1 -> 'a2) -> 'a1 list -> 'a2 list

val fold_left : ('a1 -> 'a2 -> 'a1) -> 'a2 list -> 'a1 -> 'a1

val filter : ('a1 -> bool) -> 'a1 list -> 'a1 list

val repeat : 'a1 -> nat -> 'a1 list

module Z :
 sig
  val of_nat : nat -> z

  val to_int : z -> signed_int
 end

val eqb : char list -> char list -> bool

val append : char list -> char list -> char list

val concat : char list -> char list list -> char list

module NilEmpty :
 sig
  val string_of_uint : uint -> char list
 end

module NilZero :
 sig
  val string_of_uint : uint -> char list

  val string_of_int : signed_int -> char list
 end

val show_Z : z -> char list

val split_on : char -> char list -> char list -> char list list

val words : char list -> char list list

val unwords : char list list -> char list

type 'a rd = char list list -> ('a * char list list) option

val ret : 'a1 -> 'a1 rd

val bind : 'a1 rd -> ('a1 -> 'a2 rd) -> 'a2 rd

val tok : char list rd

val sh_bool : bool -> char list

val lookup : char list -> (char list * 'a1) list -> 'a1 option

val run_ops : (char list * char list rd) list -> char list -> char list

type var = nat

type stmt =
| SSkip
| SSeq of stmt * stmt
| SIf of stmt * stmt
| SLoop of stmt
| SNew of var
| SAlias of var * var
| SAny of var
| SPrim of var
| SWrite of var
| SStore of var * var
| SCall of var * char list * var
| SExt of var
| SReturn of var
| SJump
| SAbort

val block : stmt list -> stmt

type entry = { e_class : char list; e_name : char list; e_nvars : nat;
               e_ext : bool; e_body : stmt }

val ends_dunder : char list -> bool

val is_public : char list -> bool

val outside_callable : entry -> bool

type aval =
| AFresh
| ASelfOrFresh
| AAny

val aleb : aval -> aval -> bool

val ajoin : aval -> aval -> aval

type summary = aval * bool

type summaries = (char list * summary) list

val lookup0 : summaries -> char list -> summary option

val aget : aval list -> var -> aval

val apply_ret : aval -> aval -> aval

val writable : bool -> aval -> bool

val tc : aval list -> bool -> aval -> summaries -> stmt -> bool

val tc_entry : summaries -> entry -> aval list -> bool

val forallb2 : ('a1 -> 'a2 -> bool) -> 'a1 list -> 'a2 list -> bool

val raise : aval list -> var -> aval -> aval list

val is_self : aval -> bool

type istate = (aval list * aval) * bool

val infer_stmt : summaries -> stmt -> istate -> istate

val add_summ : summaries -> char list -> summary -> summaries

val init_G : nat -> aval list

val init_S : entry list -> summaries

val round :
  summaries -> entry list -> aval list list -> summaries -> aval list
  list * summaries

val iterate :
  nat -> entry list -> summaries -> aval list list -> summaries * aval list
  list

val fUEL_INFER : nat

val infer : entry list -> summaries * aval list list

val check_with : entry list -> summaries -> aval list list -> bool

val check : entry list -> bool

val m_TimePoint_XinitX : stmt

val m_TimePoint_get_is_calendar_date : stmt

val m_TimePoint_get_is_ordinal_date : stmt

val m_TimePoint_get_is_week_date : stmt

val m_TimePoint_get_calendar_date : stmt

val m_TimePoint_get_hour_minute_second : stmt

val m_TimePoint_get_ordinal_date : stmt

val m_TimePoint_get : stmt

val m_TimePoint_pdecimal_string : stmt

val m_TimePoint_get_second_of_day : stmt

val m_TimePoint_get_time_zone_utc : stmt

val m_TimePoint_get_week_date : stmt

val m_TimePoint_get_time_zone_offset : stmt

val m_TimePoint_to_time_zone : stmt

val m_TimePoint_to_local_time_zone : stmt

val m_TimePoint_to_utc : stmt

val m_TimePoint_to_calendar_date : stmt

val m_TimePoint_to_hour_minute_second : stmt

val m_TimePoint_to_week_date : stmt

val m_TimePoint_to_ordinal_date : stmt

val m_TimePoint_get_largest_truncated_property_name : stmt

val m_TimePoint_get_smallest_missing_property_name : stmt

val m_TimePoint_get_truncated_properties : stmt

val m_TimePoint_add_truncated : stmt

val m_TimePoint_XaddX : stmt

val m_TimePoint_pcopy : stmt

val m_TimePoint_get_props : stmt

val m_TimePoint_pnormalised : stmt

val m_TimePoint_XhashX : stmt

val m_TimePoint_pcmp : stmt

val m_TimePoint_XeqX : stmt

val m_TimePoint_XltX : stmt

val m_TimePoint_XleX : stmt

val m_TimePoint_XgtX : stmt

val m_TimePoint_XgeX : stmt

val m_TimePoint_XsubX : stmt

val m_TimePoint_add_months : stmt

val m_TimePoint_ptick_over : stmt

val m_TimePoint_ptick_over_day_of_month : stmt

val m_TimePoint_pcheck_bounds : stmt

val m_TimePoint_XstrX : stmt

val m_TimePoint_strftime : stmt

val m_TimePoint_pget_dump_format : stmt

val m_TimePoint_pget_truncated_dump_format : stmt

val m_TimePoint_XreprX : stmt

val m_TimePoint_num_expanded_year_digits : stmt

val m_TimePoint_year : stmt

val m_TimePoint_month_of_year : stmt

val m_TimePoint_week_of_year : stmt

val m_TimePoint_day_of_year : stmt

val m_TimePoint_day_of_month : stmt

val m_TimePoint_day_of_week : stmt

val m_TimePoint_hour_of_day : stmt

val m_TimePoint_minute_of_hour : stmt

val m_TimePoint_second_of_minute : stmt

val m_TimePoint_time_zone : stmt

val m_TimePoint_truncated : stmt

val m_TimePoint_truncated_property : stmt

val m_TimePoint_truncated_dump_format : stmt

val m_TimePoint_dump_format : stmt

val m_TimePoint_year_sign : stmt

val m_TimePoint_expanded_year_digits : stmt

val m_TimePoint_century : stmt

val m_TimePoint_year_of_century : stmt

val m_TimePoint_year_of_decade : stmt

val m_TimePoint_decade_of_century : stmt

val m_TimePoint_hour_of_day_decimal_string : stmt

val m_TimePoint_minute_of_hour_decimal_string : stmt

val m_TimePoint_second_of_minute_decimal_string : stmt

val m_TimePoint_time_zone_minute_abs : stmt

val m_TimePoint_time_zone_hour_abs : stmt

val m_TimePoint_time_zone_sign : stmt

val m_TimePoint_seconds_since_unix_epoch : stmt

val m_Duration_XinitX : stmt

val m_Duration_pcopy : stmt

val m_Duration_is_exact : stmt

val m_Duration_get_days_and_seconds : stmt

val m_Duration_get_seconds : stmt

val m_Duration_pget_non_nominal_seconds : stmt

val m_Duration_get_is_in_weeks : stmt

val m_Duration_to_days : stmt

val m_Duration_to_weeks : stmt

val m_Duration_XabsX : stmt

val m_Duration_XaddX : stmt

val m_Duration_XsubX : stmt

val m_Duration_XmulX : stmt

val m_Duration_XrmulX : stmt

val m_Duration_XfloordivX : stmt

val m_Duration_XhashX : stmt

val m_Duration_XeqX : stmt

val m_Duration_XltX : stmt

val m_Duration_XleX : stmt

val m_Duration_XgtX : stmt

val m_Duration_XgeX : stmt

val m_Duration_XboolX : stmt

val m_Duration_XstrX : stmt

val m_Duration_XreprX : stmt

val m_Duration_years : stmt

val m_Duration_months : stmt

val m_Duration_weeks : stmt

val m_Duration_days : stmt

val m_Duration_hours : stmt

val m_Duration_minutes : stmt

val m_Duration_seconds : stmt

val m_TimeZone_XinitX : stmt

val m_TimeZone_XhashX : stmt

val m_TimeZone_XstrX : stmt

val m_TimeZone_unknown : stmt

val m_TimeRecurrence_XinitX : stmt

val m_TimeRecurrence_get_is_valid : stmt

val m_TimeRecurrence_get_next : stmt

val m_TimeRecurrence_get_prev : stmt

val m_TimeRecurrence_get_first_after : stmt

val m_TimeRecurrence_XgetitemX : stmt

val m_TimeRecurrence_pget_is_in_bounds : stmt

val m_TimeRecurrence_XiterX : stmt

val m_TimeRecurrence_XhashX : stmt

val m_TimeRecurrence_XeqX : stmt

val m_TimeRecurrence_XaddX : stmt

val m_TimeRecurrence_XsubX : stmt

val m_TimeRecurrence_XstrX : stmt

val m_TimeRecurrence_XreprX : stmt

val m_TimeRecurrence_repetitions : stmt

val m_TimeRecurrence_start_point : stmt

val m_TimeRecurrence_duration : stmt

val m_TimeRecurrence_end_point : stmt

val m_TimeRecurrence_min_point : stmt

val m_TimeRecurrence_max_point : stmt

val m_TimeRecurrence_format_number : stmt

val table : entry list

val translator_ok_effects : bool

val sh_aval : aval -> char list

val c16_summaries : summaries

val ops_c16 : (char list * char list rd) list

val run_line : char list -> char list
