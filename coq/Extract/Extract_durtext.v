(* Extract/Extract_durtext.v -- extraction of the line-protocol evaluator with
   the C10 operations (same directives as Extract.v). *)
From Coq Require Import Extraction ExtrOcamlBasic ExtrOcamlString.
From Iso Require Import Model.DriverAll_durtext.
Extraction Language OCaml.
Cd "Extract/out_durtext".
Extraction "model.ml" Model.DriverAll_durtext.run_line.
Cd "../..".
