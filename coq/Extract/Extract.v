(* Extract/Extract.v -- extraction of the line-protocol evaluator.
   Directives used: ExtrOcamlBasic, ExtrOcamlString only (see DESIGN.md 6);
   Z, positive, Q stay the extracted inductive datatypes. *)
From Coq Require Import Extraction ExtrOcamlBasic ExtrOcamlString.
From Iso Require Import Model.DriverAll.
Extraction Language OCaml.
Cd "Extract/out".
Extraction "model.ml" Model.DriverAll.run_line.
Cd "../..".
