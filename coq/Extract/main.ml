(* trusted glue: read a line, hand it to the extracted run_line as a char
   list, print the resulting char list *)
let explode s = List.init (String.length s) (String.get s)
let implode l = let b = Buffer.create 64 in List.iter (Buffer.add_char b) l; Buffer.contents b
let () =
  try
    while true do
      let line = input_line stdin in
      print_string (implode (Model.run_line (explode line)));
      print_char '\n'
    done
  with End_of_file -> ()
