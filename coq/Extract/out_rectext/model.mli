
val negb : bool -> bool

type nat =
| O
| S of nat

val option_map : ('a1 -> 'a2) -> 'a1 option -> 'a2 option

type ('a, 'b) sum =
| Inl of 'a
| Inr of 'b

val fst : ('a1 * 'a2) -> 'a1

val snd : ('a1 * 'a2) -> 'a2

val length : 'a1 list -> nat

val app : 'a1 list -> 'a1 list -> 'a1 list

type comparison =
| Eq
| Lt
| Gt

val compOpp : comparison -> comparison

type uint =
| Nil
| D0 of uint
| D1 of uint
| D2 of uint
| D3 of uint
| D4 of uint
| D5 of uint
| D6 of uint
| D7 of uint
| D8 of uint
| D9 of uint

type signed_int =
| Pos of uint
| Neg of uint

val revapp : uint -> uint -> uint

val rev : uint -> uint

module Little :
 sig
  val double : uint -> uint

  val succ_double : uint -> uint
 end

val add : nat -> nat -> nat

val mul : nat -> nat -> nat

val sub : nat -> nat -> nat

type positive =
| XI of positive
| XO of positive
| XH

type n =
| N0
| Npos of positive

type z =
| Z0
| Zpos of positive
| Zneg of positive

module Nat :
 sig
  val sub : nat -> nat -> nat

  val eqb : nat -> nat -> bool

  val leb : nat -> nat -> bool

  val ltb : nat -> nat -> bool

  val divmod : nat -> nat -> nat -> nat -> nat * nat

  val div : nat -> nat -> nat

  val modulo : nat -> nat -> nat
 end

module Pos :
 sig
  type mask =
  | IsNul
  | IsPos of positive
  | IsNeg
 end

module Coq_Pos :
 sig
  val succ : positive -> positive

  val add : positive -> positive -> positive

  val add_carry : positive -> positive -> positive

  val pred_double : positive -> positive

  type mask = Pos.mask =
  | IsNul
  | IsPos of positive
  | IsNeg

  val succ_double_mask : mask -> mask

  val double_mask : mask -> mask

  val double_pred_mask : positive -> mask

  val sub_mask : positive -> positive -> mask

  val sub_mask_carry : positive -> positive -> mask

  val sub : positive -> positive -> positive

  val mul : positive -> positive -> positive

  val iter : ('a1 -> 'a1) -> 'a1 -> positive -> 'a1

  val pow : positive -> positive -> positive

  val size_nat : positive -> nat

  val compare_cont : comparison -> positive -> positive -> comparison

  val compare : positive -> positive -> comparison

  val eqb : positive -> positive -> bool

  val ggcdn : nat -> positive -> positive -> positive * (positive * positive)

  val ggcd : positive -> positive -> positive * (positive * positive)

  val iter_op : ('a1 -> 'a1 -> 'a1) -> positive -> 'a1 -> 'a1

  val to_nat : positive -> nat

  val of_nat : nat -> positive

  val of_succ_nat : nat -> positive

  val of_uint_acc : uint -> positive -> positive

  val of_uint : uint -> n

  val to_little_uint : positive -> uint

  val to_uint : positive -> uint
 end

module N :
 sig
  val add : n -> n -> n

  val sub : n -> n -> n

  val mul : n -> n -> n

  val compare : n -> n -> comparison

  val eqb : n -> n -> bool

  val leb : n -> n -> bool

  val ltb : n -> n -> bool

  val to_nat : n -> nat

  val of_nat : nat -> n
 end

val zero : char

val one : char

val shift : bool -> char -> char

val ascii_of_pos : positive -> char

val ascii_of_N : n -> char

val ascii_of_nat : nat -> char

val n_of_digits : bool list -> n

val n_of_ascii : char -> n

val nat_of_ascii : char -> nat

val hd : 'a1 -> 'a1 list -> 'a1

val nth : nat -> 'a1 list -> 'a1 -> 'a1

val nth_error : 'a1 list -> nat -> 'a1 option

val rev0 : 'a1 list -> 'a1 list

val map : ('a1 -> 'a2) -> 'a1 list -> 'a2 list

val flat_map : ('a1 -> 'a2 list) -> 'a1 list -> 'a2 list

val fold_left : ('a1 -> 'a2 -> 'a1) -> 'a2 list -> 'a1 -> 'a1

val existsb : ('a1 -> bool) -> 'a1 list -> bool

val forallb : ('a1 -> bool) -> 'a1 list -> bool

val filter : ('a1 -> bool) -> 'a1 list -> 'a1 list

val firstn : nat -> 'a1 list -> 'a1 list

val repeat : 'a1 -> nat -> 'a1 list

module Z :
 sig
  val double : z -> z

  val succ_double : z -> z

  val pred_double : z -> z

  val pos_sub : positive -> positive -> z

  val add : z -> z -> z

  val opp : z -> z

  val sub : z -> z -> z

  val mul : z -> z -> z

  val pow_pos : z -> positive -> z

  val pow : z -> z -> z

  val compare : z -> z -> comparison

  val sgn : z -> z

  val leb : z -> z -> bool

  val ltb : z -> z -> bool

  val eqb : z -> z -> bool

  val max : z -> z -> z

  val min : z -> z -> z

  val abs : z -> z

  val to_nat : z -> nat

  val to_N : z -> n

  val of_nat : nat -> z

  val of_N : n -> z

  val to_pos : z -> positive

  val of_uint : uint -> z

  val of_int : signed_int -> z

  val to_int : z -> signed_int

  val pos_div_eucl : positive -> z -> z * z

  val div_eucl : z -> z -> z * z

  val div : z -> z -> z

  val modulo : z -> z -> z

  val ggcd : z -> z -> z * (z * z)
 end

val zeq_bool : z -> z -> bool

val eqb0 : char list -> char list -> bool

val append : char list -> char list -> char list

val length0 : char list -> nat

val concat : char list -> char list list -> char list

val string_of_list_ascii : char list -> char list

val list_ascii_of_string : char list -> char list

type q = { qnum : z; qden : positive }

val inject_Z : z -> q

val qeq_bool : q -> q -> bool

val qle_bool : q -> q -> bool

val qplus : q -> q -> q

val qmult : q -> q -> q

val qopp : q -> q

val qminus : q -> q -> q

val qinv : q -> q

val qdiv : q -> q -> q

val qred : q -> q

val qfloor : q -> z

val qceiling : q -> z

type mode =
| G
| D360
| D365
| D366

val m360 : z list

val m365 : z list

val m366 : z list

val is_leap : z -> bool

val months_common : mode -> z list

val months_leap : mode -> z list

val months : mode -> z -> z list

val mlen : mode -> z -> z -> z

val ylen : mode -> z -> z

val dby : mode -> z -> z

val cum365 : z -> z

val cum : mode -> z -> z -> z

val dn_cal : mode -> z -> z -> z -> z

val dn_ord : mode -> z -> z -> z

val ref_monday : mode -> z

val weekday : mode -> z -> z

val wys : mode -> z -> z

val weeks_in : mode -> z -> z

val dn_week : mode -> z -> z -> z -> z

val valid_cal : mode -> z -> z -> z -> bool

val valid_ord : mode -> z -> z -> bool

val valid_week : mode -> z -> z -> z -> bool

val uint_of_char : char -> uint option -> uint option

module NilEmpty :
 sig
  val string_of_uint : uint -> char list

  val uint_of_string : char list -> uint option
 end

module NilZero :
 sig
  val string_of_uint : uint -> char list

  val uint_of_string : char list -> uint option

  val string_of_int : signed_int -> char list

  val int_of_string : char list -> signed_int option
 end

val qz : z -> q

val qdivmod : q -> z -> z * q

val qtrunc : q -> z

val qeqb : q -> q -> bool

val qltb : q -> q -> bool

val qleb : q -> q -> bool

val qis_int : q -> bool

val qadd : q -> q -> q

val qsub : q -> q -> q

val qmul : q -> q -> q

val qdivz : q -> z -> q

val show_Z : z -> char list

val read_Z : char list -> z option

val show_Q : q -> char list

val split_on : char -> char list -> char list -> char list list

val words : char list -> char list list

val read_Q : char list -> q option

val unwords : char list list -> char list

val qabs : q -> q

val leap_factors : (z * bool) list

val get_is_leap_year : z -> bool

val zsum : z list -> z

val dAYS_IN_MONTHS : mode -> z list

val dAYS_IN_MONTHS_LEAP : mode -> z list

val dAYS_IN_YEAR : mode -> z

val dAYS_IN_YEAR_LEAP : mode -> z

val mAX_DAYS_IN_MONTH : mode -> z

val max_weeks_in_year : mode -> z

val get_days_in_year : mode -> z -> z

val year_months : mode -> z -> z list

val znth : z list -> z -> z

val get_days_in_month : mode -> z -> z -> z

val get_days_in_month_leap : mode -> z -> z

val next_multiple : z -> z -> z

val range_corrections : z -> z -> z -> z

val get_days_in_year_range : mode -> z -> z -> z

val walk_months : z list -> z -> z -> (z * z) option

val cal_from_ord : mode -> z -> z -> ((z * z) * z) option

val cum_months : z list -> z -> z

val ord_from_cal : mode -> z -> z -> z -> (z * z) option

val rEF_YEAR : z

val rEF_MONTH : z

val rEF_DAY : z

val rEF_ORD : z

val week_date_start : mode -> z -> (z * z) * z

val triple_ltb : ((z * z) * z) -> ((z * z) * z) -> bool

val triple_leb : ((z * z) * z) -> ((z * z) * z) -> bool

val ord_week_date_start : mode -> z -> (z * z) option

val cal_from_week : mode -> z -> z -> z -> ((z * z) * z) option

val week_from_cal : mode -> z -> z -> z -> ((z * z) * z) option

val ord_from_week : mode -> z -> z -> z -> (z * z) option

val week_from_ord : mode -> z -> z -> ((z * z) * z) option

val sum_ylen : mode -> z -> nat -> z

val get_weeks_in_year : mode -> z -> z

val get_days_since_1_ad : mode -> z -> z

type dur =
| DW of z
| DU of z * z * z * q * q * q

val dzero : dur

val dur_make : z -> z -> z -> z -> q -> q -> q -> dur

val get_is_in_weeks : dur -> bool

val to_days : dur -> dur

val is_exact : dur -> bool

val non_nominal_seconds : dur -> q

val days_and_seconds : mode -> dur -> z * q

val get_seconds : mode -> dur -> q

val dur_mul : dur -> z -> dur

val dur_add : dur -> dur -> dur

val dur_sub : dur -> dur -> dur

val dur_abs : dur -> dur

val qfloordiv : q -> z -> q

val dur_floordiv : dur -> z -> dur

val dur_eqb : dur -> dur -> bool

val dur_hash_key : dur -> (z * z) * q

val ds_ltb : (z * q) -> (z * q) -> bool

val ds_leb : (z * q) -> (z * q) -> bool

val dur_ltb : mode -> dur -> dur -> bool

val dur_leb : mode -> dur -> dur -> bool

val dur_gtb : mode -> dur -> dur -> bool

val dur_geb : mode -> dur -> dur -> bool

val dur_bool : dur -> bool

val dur_len : dur -> q

type date =
| Cal of z * z * z
| Ord of z * z
| Wk of z * z * z

type tod =
| HMS of q * q * q
| HM of q * q
| HH of q

type zone = { zh : z; zm : z }

type tp = { tdate : date; ttod : tod; tzone : zone }

val date_year : date -> z

val get_calendar_date : mode -> date -> ((z * z) * z) option

val get_ordinal_date : mode -> date -> (z * z) option

val get_week_date : mode -> date -> ((z * z) * z) option

val to_calendar_date : mode -> date -> date option

val to_ordinal_date : mode -> date -> date option

val to_week_date : mode -> date -> date option

val date_in_bounds : mode -> date -> bool

val get_hour_minute_second : tod -> (q * q) * q

val get_second_of_day : tod -> q

val tod_hour : tod -> q

val tick_time : tod -> tod * z

val guarded : ('a1 -> bool) -> ('a1 -> 'a1) -> 'a1 -> 'a1

val loop : ('a1 -> bool) -> ('a1 -> 'a1) -> z -> 'a1 -> 'a1

val dom_back_cond : ((z * z) * z) -> bool

val dom_back_step : mode -> ((z * z) * z) -> (z * z) * z

val dom_fwd_cond : mode -> ((z * z) * z) -> bool

val dom_fwd_step : mode -> ((z * z) * z) -> (z * z) * z

val tick_dom : mode -> ((z * z) * z) -> (z * z) * z

val tick_month : ((z * z) * z) -> (z * z) * z

val tick_doy : mode -> (z * z) -> z * z

val tick_woy : mode -> (z * z) -> z * z

val add_days_raw : date -> z -> date

val tick_date : mode -> date -> date

val tick_over : mode -> tp -> tp

val add_seconds : tod -> q -> tod

val add_minutes : tod -> q -> tod

val add_hours : tod -> q -> tod

val with_tod : tp -> tod -> tp

val with_date : tp -> date -> tp

val clamp_dom : mode -> z -> z -> z -> z

val month_step : mode -> z -> ((z * z) * z) -> (z * z) * z

val add_months : mode -> tp -> z -> tp option

val add_years : mode -> date -> z -> date

val tp_add : mode -> tp -> dur -> tp option

val tp_sub_dur : mode -> tp -> dur -> tp option

val zone_diff : zone -> zone -> dur

val to_time_zone : mode -> tp -> zone -> tp option

val zone_utc : zone

val to_utc : mode -> tp -> tp option

val normalised : mode -> tp -> tp

val tp_props_eqb : tp -> tp -> bool

val cmp_key : mode -> bool -> tp -> (z list * q) option

val lex_cmp : z list -> z list -> comparison

val key_cmp : (z list * q) -> (z list * q) -> comparison

val tp_cmp : mode -> tp -> tp -> comparison option

val cmp_op : z -> comparison -> bool

val tp_hash_key : mode -> tp -> (((z * z) * z) * ((q * q) * q)) option

val tp_sub_pos : mode -> tp -> tp -> dur option

val tp_sub : mode -> tp -> tp -> dur option

val date_dn : mode -> date -> z

val tod_secs : tod -> q

val zone_secs : zone -> z

val instant : mode -> tp -> q

val valid_date : mode -> date -> bool

val qin : z -> q -> z -> bool

val valid_tod : tod -> bool

val normal_tod : tod -> bool

val valid_zone : zone -> bool

val valid_tp : mode -> tp -> bool

val normal_tp : mode -> tp -> bool

val digit_val : char -> z option

val two_digits : char -> char -> z option

val sign_of : char -> z option

val read_offset : char list -> (z * z) option

val month_shift1 : mode -> z -> ((z * z) * z) -> (z * z) * z

val month_shift : mode -> z -> ((z * z) * z) -> (z * z) * z

val year_of_dn : mode -> z -> z

val ord_of_dn : mode -> z -> z * z

val month_of_doy : mode -> z -> nat -> z -> z -> z * z

val cal_of_dn : mode -> z -> (z * z) * z

val week_of_dn : mode -> z -> (z * z) * z

type dayspec = { ds_dow : z option; ds_dom : z option; ds_doy : z option;
                 ds_week : z option }

val opt_match : z option -> z -> bool

val day_matches : mode -> dayspec -> z -> bool

val next_day : mode -> dayspec -> z -> z -> z option

type todspec = { ts_h : z option; ts_m : z option; ts_s : z option }

val has_time : todspec -> bool

val sod_matches : todspec -> z -> bool

val next_sod : todspec -> z -> z option

val next_match : mode -> dayspec -> todspec -> z -> z -> z -> (z * z) option

val utc_offset_seconds : z -> z -> z -> z -> z

val split_offset : z -> z * z

val get_local_time_zone : z -> z -> z -> z -> z * z

val pad2 : z -> char list

type tzfmt =
| TzNormal
| TzReduced
| TzExtended

val format_offset : tzfmt -> (z * z) -> char list

val get_local_time_zone_format : tzfmt -> z -> z -> z -> z -> char list

val unix_ref : tp

val from_unix : mode -> q -> (z * z) option -> tp option

val seconds_since_unix_epoch : mode -> tp -> z option

type recur = { r_reps : z option; r_start : tp option; r_dur : dur option;
               r_end : tp option; r_second : tp option; r_fmt : z }

type 'a res =
| Ok of 'a
| Err

val tp_ltb : mode -> tp -> tp -> bool option

val tp_eqb : mode -> tp -> tp -> bool option

val tp_gtb : mode -> tp -> tp -> bool option

val tp_leb : mode -> tp -> tp -> bool option

val zopt_eqb : z option -> z -> bool

val rec_make :
  mode -> z option -> tp option -> dur option -> tp option -> recur res

val in_bounds : mode -> recur -> tp option -> bool option

val step_point : mode -> recur -> bool -> tp option -> tp option

val get_next : mode -> recur -> tp option -> tp option

val get_prev : mode -> recur -> tp option -> tp option

val dur_falsy : dur option -> bool

val iter_from : mode -> recur -> bool -> nat -> tp option -> tp list

val iter_take : mode -> recur -> nat -> tp list

val rec_getitem : mode -> recur -> z -> tp option

val valid_scan :
  mode -> recur -> bool -> tp -> nat -> tp option -> bool option

val get_is_valid : mode -> recur -> tp -> nat -> bool option

val first_after_scan :
  mode -> recur -> tp -> nat -> tp option -> tp option option

val get_first_after : mode -> recur -> tp -> nat -> tp option option

val opt_add : mode -> tp option -> dur -> tp option option

val rec_add : mode -> recur -> dur -> recur res

val rec_sub : mode -> recur -> dur -> recur res

val opt_tp_eqb : mode -> tp option -> tp option -> bool

val opt_dur_eqb : dur option -> dur option -> bool

val opt_z_eqb : z option -> z option -> bool

val rec_eqb : mode -> recur -> recur -> bool

type trunc = { t_hour : q option; t_min : q option; t_sec : q option;
               t_dow : z option; t_dom : z option; t_doy : z option;
               t_week : z option; t_zone : zone option }

type tres =
| TOk of tp
| THang
| TErr

val to_hms : tp -> tp

val step_until :
  mode -> (tp -> q option) -> (tp -> tp) -> q -> z -> tp -> tres

val tod_sec : tp -> q option

val tod_min : tp -> q option

val tod_hr : tp -> q option

val bump_sec : tp -> tp

val bump_min : tp -> tp

val bump_hr : tp -> tp

val date_field : z -> tp -> q option

val bump_date : z -> tp -> tp

val tbind : tres -> (tp -> tres) -> tres

val conv : date option -> tp -> tres

val add_truncated : mode -> tp -> trunc -> tres

val tp_add_trunc : mode -> trunc -> tp -> tres

type 'a rd = char list list -> ('a * char list list) option

val ret : 'a1 -> 'a1 rd

val bind : 'a1 rd -> ('a1 -> 'a2 rd) -> 'a2 rd

val tok : char list rd

val rZ : z rd

val rQ : q rd

val rMode : mode rd

val rDate : date rd

val rTod : tod rd

val rZone : zone rd

val rTp : tp rd

val rDur : dur rd

val sh_mode : mode -> char list

val sh_bool : bool -> char list

val sh_date : date -> char list

val sh_tod : tod -> char list

val sh_zone : zone -> char list

val sh_tp : tp -> char list

val sh_dur : dur -> char list

val sh_opt : ('a1 -> char list) -> 'a1 option -> char list

val sh_z3 : ((z * z) * z) -> char list

val sh_z2 : (z * z) -> char list

val sh_cmp : comparison -> char list

val to_kind : mode -> char list -> tp -> tp option

val respell : mode -> tp -> dur -> zone -> char list -> tp option

val hash_key_eqb :
  (((z * z) * z) * ((q * q) * q)) -> (((z * z) * z) * ((q * q) * q)) -> bool

val pair_out : mode -> tp -> tp -> char list

val rOperand : (((tp * dur) * zone) * char list) rd

val rOpt : 'a1 rd -> 'a1 option rd

val rRecArgs : (((z option * tp option) * dur option) * tp option) rd

val mk_rec :
  mode -> (((z option * tp option) * dur option) * tp option) -> recur res

val sh_o : ('a1 -> char list) -> 'a1 option -> char list

val sh_rec : mode -> recur -> char list

val sh_res : ('a1 -> char list) -> 'a1 res -> char list

val sh_oo : tp option option -> char list

val sh_ob : bool option -> char list

val fUEL : nat

val rTrunc : trunc rd

val in_rng_o : z option -> z -> z -> bool

val in_rng_q : q option -> z -> z -> bool -> bool

val trunc_bounds_ok : mode -> trunc -> bool

val sh_tres : tres -> char list

val local_ds : mode -> tp -> zone -> z * q

val qfl : q option -> z option

val trunc_expect : mode -> trunc -> tp -> char list

val op_table : (char list * char list rd) list

val lookup : char list -> (char list * 'a1) list -> 'a1 option

val run_ops : (char list * char list rd) list -> char list -> char list

type ptok =
| PLit of char list
| PDig of char list * nat
| PDigs of char list
| PSign of char list
| PGrp of char list * char list
| PUnix of char list

type dtok =
| DLit of char list
| DNum of char list * nat
| DStr of char list

type form = { f_format : char list; f_type : char list; f_expr : char list;
              f_parse : ptok list; f_dump : dtok list;
              f_props : char list list }

val str_prefix : char list -> char list -> char list option

val is_digit : char -> bool

val take_digits : nat -> char list -> (char list * char list) option

val span_digits : char list -> char list * char list

val nl : char list

val at_end : char list -> bool

type env = (char list * char list) list

val lookup_env : char list -> env -> char list option

val has_key : char list -> env -> bool

val snoc : env -> char list -> char list -> env

val prefixes_desc : char list -> (char list * char list) list

val pmatch : ptok list -> char list -> env -> env option

type pcfg = { c_ned : z; c_trunc : bool; c_basic : bool;
              c_assumed : (z * z) option; c_unknown : bool; c_local : 
              (z * z) }

type perr =
| ESyntax
| EBadInput
| EValue
| EUnmodelled

type 'a pres =
| POk of 'a
| PErr of perr

val mem : char list -> char list list -> bool

val formats_of : pcfg -> char list list

val first_match : form list -> char list -> (form * env) option

val get_date_info :
  form list -> pcfg -> char list -> char list list -> (form * env) option

val get_time_info :
  form list -> pcfg -> char list -> char list list -> char list list ->
  (form * env) option

val get_zone_info :
  form list -> pcfg -> char list -> char list list -> (form * env) option

type zinfo =
| ZNone
| ZUtc
| ZVal of (char list, z) sum * (char list, z) sum option

val neg_field : (char list, z) sum -> (char list, z) sum option

val process_zone : pcfg -> env -> zinfo pres

val split_str : char -> char list -> char list list

val ends_with_Z : char list -> char list option

val contains_char : char -> char list -> bool

val rsplit_dash : char list -> char list * char list

type pinfo = { i_date : env; i_time : env; i_zone : zinfo; i_expr : char list }

val get_info :
  form list -> form list -> form list -> pcfg -> char list -> pinfo pres

type ptp = { p_year : z option; p_month : z option; p_dom : z option;
             p_doy : z option; p_week : z option; p_dow : z option;
             p_hour : q option; p_min : q option; p_sec : q option;
             p_zone : zone option; p_trunc : bool; p_tprop : char list;
             p_ned : z; p_fmt : char list }

val digits_to_Z : char list -> z option

val decimal_of : char list -> q option

val oz : env -> char list -> z option pres

val oq : env -> char list -> q option pres

val odec : env -> char list -> q option pres

val pbind : 'a1 pres -> ('a1 -> 'a2 pres) -> 'a2 pres

val in_rng : z option -> z -> z -> bool

val in_rngq : q option -> z -> z -> bool

val below_q : q option -> z -> z -> bool

val truthy : z option -> bool

val check_bounds : mode -> ptp -> bool

val construct :
  mode -> z option -> z option -> z option -> z option -> z option -> z
  option -> q option -> q option -> q option -> q option -> q option -> q
  option -> (z * z option) option -> bool -> char list -> z -> char list ->
  bool -> ptp pres

val zfield : (char list, z) sum -> z pres

val create_timepoint : mode -> pcfg -> pinfo -> char list -> bool -> ptp pres

type dres =
| DOk of char list
| DBounds
| DSyntax
| DOverflow
| DErr
| DUnmodelled

val zeros : nat -> char list

val pad_num : nat -> z -> char list

val strip_zeros : char list -> char list

val decimal_string : q -> char list

val get_dump_format : z -> tp -> dres

type pval =
| VInt of z
| VStr of char list
| VNone

val prop_value : mode -> tp -> char list -> pval

val render : mode -> tp -> dtok list -> char list option

val find_expr : form list -> char list -> form option

val split_year : char list -> char list * char list

val date_template :
  form list -> char list -> (dtok list * char list list) option

val lstrip_dash : char list -> char list

val contains_sub : char list -> char list -> bool

val zone_template :
  form list -> char list -> (dtok list * char list list) option

val expression_of :
  form list -> form list -> form list -> (char list -> (z * z) option) ->
  char list -> (((dtok list * char list list) * (z * z) option) option, dres)
  sum

val dump_with :
  z -> mode -> tp -> dtok list -> char list list -> (z * z) option -> dres

val dump :
  z -> form list -> form list -> form list -> (char list -> (z * z) option)
  -> mode -> tp -> char list -> dres

val tp_str :
  z -> form list -> form list -> form list -> (char list -> (z * z) option)
  -> mode -> tp -> dres

val is_word : char -> bool

type fitem =
| FLit of char list
| FDir of char list

val split_fmt : char list -> char list -> bool -> fitem list

val split_format : char list -> char list -> fitem list

val lookup_dir :
  char list -> (char list * ((dtok list * char list list) * ptok list)) list
  -> ((dtok list * char list list) * ptok list) option

val strftime :
  z -> (char list * ((dtok list * char list list) * ptok list)) list -> mode
  -> tp -> char list -> dres

val strptime :
  (char list * ((dtok list * char list list) * ptok list)) list -> mode ->
  pcfg -> char list -> char list -> ptp pres

val dATE_FORMS_0 : form list

val dATE_FORMS_2 : form list

val dATE_FORMS_3 : form list

val tIME_FORMS : form list

val zONE_FORMS : form list

val sTRFTIME_TABLE :
  (char list * ((dtok list * char list list) * ptok list)) list

val hexval : char -> nat option

val pct_dec : nat -> char list -> char list

val pct_decode : char list -> char list

val needs_pct : char -> bool

val hexdigit : nat -> char

val pct_encode : char list -> char list

val is_ascii_str : char list -> bool

val rText : char list rd

val date_forms_of : z -> form list

val rCfg : pcfg rd

val sh_oz : z option -> char list

val sh_oq : q option -> char list

val sh_ptp : ptp -> char list

val sh_perr : perr -> char list

val sh_pres : ('a1 -> char list) -> 'a1 pres -> char list

val sh_dres : dres -> char list

val parse_text : mode -> pcfg -> char list -> bool -> ptp pres

val ptp_to_tp : ptp -> tp option

val default_cfg : z -> pcfg

val zone_of_text : char list -> (z * z) option

val do_dump : mode -> z -> tp -> char list -> dres

val do_str : mode -> z -> tp -> dres

val ops_text : (char list * char list rd) list

val cACHED :
  (char list * (char list list * (char list list * (bool * (bool * bool)))))
  list

val cLI_CALENDAR_CHOICES : char list list

val lower_char : char -> char

val lower : char list -> char list

val mode_of_lower : char list -> mode option

val mode_of_spelling : char list -> mode option

val smode : char list -> mode

val norm_spelling : char list -> char list

type fname =
| FLeap
| FYlen
| FMlen
| FMlenLeap
| FRange
| FWeeks
| FWstart
| FOwstart
| FSince

val fname_eqb : fname -> fname -> bool

val py_name : fname -> char list

type val0 = z list

val b2z : bool -> z

val z2b : z -> bool

val hd0 : val0 -> z

val enc_opt2 : (z * z) option -> val0

type prog =
| Ret of val0
| CallThen of fname * z list * (val0 -> prog)

val sum_loop : z -> nat -> (z -> prog) -> prog

val ord_from_cal_ms : z list -> z -> z -> z -> (z * z) option

val table_of : mode -> val0 -> z list

val body : mode -> fname -> z list -> prog

type key = z list * char list option

type cache = ((fname * key) * val0) list

val zlist_eqb : z list -> z list -> bool

val ostr_eqb : char list option -> char list option -> bool

val key_eqb : key -> key -> bool

val lookup0 : cache -> fname -> key -> val0 option

val mk_key : (fname -> bool) -> char list -> fname -> z list -> key

val exec :
  (fname -> bool) -> char list -> nat -> cache -> prog -> val0 * cache

type state = { cur : char list; store : cache }

type op =
| SetMode of char list
| Call of fname * z list

type out =
| OOk
| OBadMode
| OVal of val0

val init : state

val fUEL0 : nat

val set_mode : state -> char list -> state * out

val step_with : (fname -> bool) -> state -> op -> state * out

val cached_row :
  char list -> (char list * (char list list * (char list
  list * (bool * (bool * bool))))) list -> (char list list * (char list
  list * (bool * (bool * bool)))) option

val keyed_tbl : fname -> bool

val step : state -> op -> state * out

val read_zs : char list list -> z list option

val helper_of : char list -> (fname * nat) option

val sh_val : val0 -> char list

val sh_out : out -> char list

val cur_md : state -> mode

val cli_set : state -> char list -> char list -> state * char list option

val cli_point : z -> z -> z -> z -> z -> z -> tp

val sh_points : tp list -> char list

val hstep : state -> char list -> (state * char list) option

val hist_go :
  state -> char list list -> char list list -> (state * char list list) option

val count_f : cache -> fname -> z

val sh_sizes : cache -> char list

val ops_cache : (char list * char list rd) list

type var = nat

type stmt =
| SSkip
| SSeq of stmt * stmt
| SIf of stmt * stmt
| SLoop of stmt
| SNew of var
| SAlias of var * var
| SAny of var
| SPrim of var
| SWrite of var
| SStore of var * var
| SCall of var * char list * var
| SExt of var
| SReturn of var
| SJump
| SAbort

val block : stmt list -> stmt

type entry = { e_class : char list; e_name : char list; e_nvars : nat;
               e_ext : bool; e_body : stmt }

val ends_dunder : char list -> bool

val is_public : char list -> bool

val outside_callable : entry -> bool

type aval =
| AFresh
| ASelfOrFresh
| AAny

val aleb : aval -> aval -> bool

val ajoin : aval -> aval -> aval

type summary = aval * bool

type summaries = (char list * summary) list

val lookup1 : summaries -> char list -> summary option

val aget : aval list -> var -> aval

val apply_ret : aval -> aval -> aval

val writable : bool -> aval -> bool

val tc : aval list -> bool -> aval -> summaries -> stmt -> bool

val tc_entry : summaries -> entry -> aval list -> bool

val forallb2 : ('a1 -> 'a2 -> bool) -> 'a1 list -> 'a2 list -> bool

val raise : aval list -> var -> aval -> aval list

val is_self : aval -> bool

type istate = (aval list * aval) * bool

val infer_stmt : summaries -> stmt -> istate -> istate

val add_summ : summaries -> char list -> summary -> summaries

val init_G : nat -> aval list

val init_S : entry list -> summaries

val round :
  summaries -> entry list -> aval list list -> summaries -> aval list
  list * summaries

val iterate :
  nat -> entry list -> summaries -> aval list list -> summaries * aval list
  list

val fUEL_INFER : nat

val infer : entry list -> summaries * aval list list

val check_with : entry list -> summaries -> aval list list -> bool

val check : entry list -> bool

val m_TimePoint_XinitX : stmt

val m_TimePoint_get_is_calendar_date : stmt

val m_TimePoint_get_is_ordinal_date : stmt

val m_TimePoint_get_is_week_date : stmt

val m_TimePoint_get_calendar_date : stmt

val m_TimePoint_get_hour_minute_second : stmt

val m_TimePoint_get_ordinal_date : stmt

val m_TimePoint_get : stmt

val m_TimePoint_pdecimal_string : stmt

val m_TimePoint_get_second_of_day : stmt

val m_TimePoint_get_time_zone_utc : stmt

val m_TimePoint_get_week_date : stmt

val m_TimePoint_get_time_zone_offset : stmt

val m_TimePoint_to_time_zone : stmt

val m_TimePoint_to_local_time_zone : stmt

val m_TimePoint_to_utc : stmt

val m_TimePoint_to_calendar_date : stmt

val m_TimePoint_to_hour_minute_second : stmt

val m_TimePoint_to_week_date : stmt

val m_TimePoint_to_ordinal_date : stmt

val m_TimePoint_get_largest_truncated_property_name : stmt

val m_TimePoint_get_smallest_missing_property_name : stmt

val m_TimePoint_get_truncated_properties : stmt

val m_TimePoint_add_truncated : stmt

val m_TimePoint_XaddX : stmt

val m_TimePoint_pcopy : stmt

val m_TimePoint_get_props : stmt

val m_TimePoint_pnormalised : stmt

val m_TimePoint_XhashX : stmt

val m_TimePoint_pcmp : stmt

val m_TimePoint_XeqX : stmt

val m_TimePoint_XltX : stmt

val m_TimePoint_XleX : stmt

val m_TimePoint_XgtX : stmt

val m_TimePoint_XgeX : stmt

val m_TimePoint_XsubX : stmt

val m_TimePoint_add_months : stmt

val m_TimePoint_ptick_over : stmt

val m_TimePoint_ptick_over_day_of_month : stmt

val m_TimePoint_pcheck_bounds : stmt

val m_TimePoint_XstrX : stmt

val m_TimePoint_strftime : stmt

val m_TimePoint_pget_dump_format : stmt

val m_TimePoint_pget_truncated_dump_format : stmt

val m_TimePoint_XreprX : stmt

val m_TimePoint_num_expanded_year_digits : stmt

val m_TimePoint_year : stmt

val m_TimePoint_month_of_year : stmt

val m_TimePoint_week_of_year : stmt

val m_TimePoint_day_of_year : stmt

val m_TimePoint_day_of_month : stmt

val m_TimePoint_day_of_week : stmt

val m_TimePoint_hour_of_day : stmt

val m_TimePoint_minute_of_hour : stmt

val m_TimePoint_second_of_minute : stmt

val m_TimePoint_time_zone : stmt

val m_TimePoint_truncated : stmt

val m_TimePoint_truncated_property : stmt

val m_TimePoint_truncated_dump_format : stmt

val m_TimePoint_dump_format : stmt

val m_TimePoint_year_sign : stmt

val m_TimePoint_expanded_year_digits : stmt

val m_TimePoint_century : stmt

val m_TimePoint_year_of_century : stmt

val m_TimePoint_year_of_decade : stmt

val m_TimePoint_decade_of_century : stmt

val m_TimePoint_hour_of_day_decimal_string : stmt

val m_TimePoint_minute_of_hour_decimal_string : stmt

val m_TimePoint_second_of_minute_decimal_string : stmt

val m_TimePoint_time_zone_minute_abs : stmt

val m_TimePoint_time_zone_hour_abs : stmt

val m_TimePoint_time_zone_sign : stmt

val m_TimePoint_seconds_since_unix_epoch : stmt

val m_Duration_XinitX : stmt

val m_Duration_pcopy : stmt

val m_Duration_is_exact : stmt

val m_Duration_get_days_and_seconds : stmt

val m_Duration_get_seconds : stmt

val m_Duration_pget_non_nominal_seconds : stmt

val m_Duration_get_is_in_weeks : stmt

val m_Duration_to_days : stmt

val m_Duration_to_weeks : stmt

val m_Duration_XabsX : stmt

val m_Duration_XaddX : stmt

val m_Duration_XsubX : stmt

val m_Duration_XmulX : stmt

val m_Duration_XrmulX : stmt

val m_Duration_XfloordivX : stmt

val m_Duration_XhashX : stmt

val m_Duration_XeqX : stmt

val m_Duration_XltX : stmt

val m_Duration_XleX : stmt

val m_Duration_XgtX : stmt

val m_Duration_XgeX : stmt

val m_Duration_XboolX : stmt

val m_Duration_XstrX : stmt

val m_Duration_XreprX : stmt

val m_Duration_years : stmt

val m_Duration_months : stmt

val m_Duration_weeks : stmt

val m_Duration_days : stmt

val m_Duration_hours : stmt

val m_Duration_minutes : stmt

val m_Duration_seconds : stmt

val m_TimeZone_XinitX : stmt

val m_TimeZone_XhashX : stmt

val m_TimeZone_XstrX : stmt

val m_TimeZone_unknown : stmt

val m_TimeRecurrence_XinitX : stmt

val m_TimeRecurrence_get_is_valid : stmt

val m_TimeRecurrence_get_next : stmt

val m_TimeRecurrence_get_prev : stmt

val m_TimeRecurrence_get_first_after : stmt

val m_TimeRecurrence_XgetitemX : stmt

val m_TimeRecurrence_pget_is_in_bounds : stmt

val m_TimeRecurrence_XiterX : stmt

val m_TimeRecurrence_XhashX : stmt

val m_TimeRecurrence_XeqX : stmt

val m_TimeRecurrence_XaddX : stmt

val m_TimeRecurrence_XsubX : stmt

val m_TimeRecurrence_XstrX : stmt

val m_TimeRecurrence_XreprX : stmt

val m_TimeRecurrence_repetitions : stmt

val m_TimeRecurrence_start_point : stmt

val m_TimeRecurrence_duration : stmt

val m_TimeRecurrence_end_point : stmt

val m_TimeRecurrence_min_point : stmt

val m_TimeRecurrence_max_point : stmt

val m_TimeRecurrence_format_number : stmt

val table : entry list

val translator_ok_effects : bool

val sh_aval : aval -> char list

val c16_summaries : summaries

val ops_c16 : (char list * char list rd) list

type 'a tres0 =
| TOk0 of 'a
| TSyntax
| TBadInput
| TValueError
| TUnmodelled

val tbind0 : 'a1 tres0 -> ('a1 -> 'a2 tres0) -> 'a2 tres0

val tmap : ('a1 -> 'a2) -> 'a1 tres0 -> 'a2 tres0

val nL : char

val is_digit0 : char -> bool

val is_ascii7 : char -> bool

val digit_val0 : char -> z

val digit_char : z -> char

val str_all : (char -> bool) -> char list -> bool

val str_nonempty : char list -> bool

val slen : char list -> nat

val dec_acc : char list -> z -> z

val dec_val : char list -> z

val span_digits0 : char list -> char list * char list

val iNT_MAX_STR_DIGITS : nat

val conv_int : char list -> z tres0

val int_str : z -> char list tres0

val lstrip0 : char list -> char list

val rstrip0 : char list -> char list

val float_safe : char list -> char list -> bool

val dval : char list -> char list -> q

val fdig : nat -> z -> z -> char list option

val fDIG_FUEL : nat

val frac_str : q -> char list tres0

val z_unit : z -> char list -> char list tres0

val q_unit : q -> char list -> char list tres0

val dur_str_body : dur -> char list tres0

val qsgn : q -> z

val fully_negative : dur -> bool

val dur_str : dur -> char list tres0

val at_end0 : char list -> bool

val uncons : char -> char list -> char list option

val take_unit : char -> char list -> char list option * char list

val match_date :
  char list -> ((char list option * char list option) * char list
  option) * char list

val last_split :
  char -> char list -> (char list -> 'a1 option) -> (char list * 'a1) option

val opt_group :
  char -> char list -> (char list -> 'a1 option) -> (char list option * 'a1)
  option

val match_time :
  char list -> ((char list option * char list option) * char list option)
  option

type groups = { g_years : char list option; g_months : char list option;
                g_days : char list option; g_hours : char list option;
                g_minutes : char list option; g_seconds : char list option;
                g_weeks : char list option }

val re1 : char list -> groups option

val re2 : char list -> groups option

val re3 : char list -> groups option

val comma_to_point : char list -> char list

val is_ws : char -> bool

val dp_rest : char list -> char list

val digitpart : char list -> char list option

val float_accepts : char list -> bool

val conv_float : char list -> q tres0

val conv_oint : char list option -> z tres0

val conv_ofloat : char list option -> q tres0

val is_verr : 'a1 tres0 -> bool

val convert : z -> groups -> dur tres0

val stake : nat -> char list -> char list

val sdrop : nat -> char list -> char list

val alt_make :
  char list -> char list -> char list -> char list -> char list -> char list
  -> dur tres0

val alt_time_basic : char list -> ((char list * char list) * char list) option

val alt_time_ext : char list -> ((char list * char list) * char list) option

val alt_basic : char list -> char list -> dur tres0

val alt_extended : char list -> char list -> dur tres0

val alt_forms : char list -> dur tres0

val eXPECTED_ALT_DATE_ALPHABET : char list

val eXPECTED_ALT_TIME_ALPHABET : char list

val eXPECTED_ALT_ZONE_ALPHABET : char list

val str_mem : char -> char list -> bool

val has_foreign : char list -> char list -> bool

val alt_reject : char list -> dur tres0

val alt_parse : char list -> dur tres0

val dur_parse : char list -> dur tres0

val hex_val : char -> n option

val pct_decode0 : char list -> char list

val sh_tres_dur : dur tres0 -> char list

val sh_tres_str : char list tres0 -> char list

val rTextTok : char list rd

val dround_out : dur -> char list

val ops_durtext : (char list * char list rd) list

type cres =
| COut of char list
| CExit
| CUnmodelled

val cli_cfg : bool -> (z * z) -> pcfg

val is_letter : char -> bool

val may_be_ctime : char list -> bool

val iSO_STRPTIME_FORMATS : char list list

val date_parse :
  mode -> bool -> (z * z) -> char list -> ((tp * char list) option, cres) sum

val date_shift : mode -> tp -> char list -> (tp option, cres) sum

val date_format : mode -> tp -> char list -> cres

val cli_shift :
  mode -> bool -> (z * z) -> char list -> char list list -> char list option
  -> cres

val cli_diff : mode -> (z * z) -> char list -> char list -> cres

val cli_rec_points : mode -> (z * z) -> recur -> z -> tp list

val nlc : char list

val sh_cres : cres -> char list

val rTexts : nat -> char list list rd

val rec_of_text : mode -> (z * z) -> char list -> (recur option, cres) sum

val ops_cli : (char list * char list rd) list

type rtext =
| RtOk of char list
| RtOverflow
| RtValue
| RtUnmodelled

val rt_bind : rtext -> (char list -> rtext) -> rtext

val opt_point_text : mode -> tp option -> rtext

val rt_of_tres : char list tres0 -> rtext

val rec_prefix : z option -> rtext

val int_fits : z -> bool

val q_fits : q -> bool

val dur_str_no_raise : dur -> bool

val duration_text : dur option -> rtext

val duration_text_unused : dur option -> rtext

val rec_str : mode -> recur -> rtext

type tp_key = ((z * z) * z) * ((q * q) * q)

type dur_key = (z * z) * q

type rec_key = { k_reps : z option; k_start : tp_key option;
                 k_end : tp_key option; k_dur : dur_key option;
                 k_min : tp_key option; k_max : tp_key option }

val opt_tp_key : mode -> tp option -> tp_key option option

val rec_hash_key : mode -> recur -> rec_key option

val sh_rtext : rtext -> char list

val year_plain : tp option -> bool

val args_plain : (((z option * tp option) * dur option) * tp option) -> bool

val sh_tp_key : tp_key -> char list

val sh_dur_key : dur_key -> char list

val sh_rec_key : rec_key -> char list

val sh_reparse : mode -> recur -> char list -> char list

val ops_rectext : (char list * char list rd) list

val all_ops : (char list * char list rd) list

val run_line : char list -> char list
