(* Extract/Extract_cache.v -- extraction of the line-protocol evaluator with
   the C15 history operations (same directives as Extract.v). *)
From Coq Require Import Extraction ExtrOcamlBasic ExtrOcamlString.
From Iso Require Import Model.DriverAll_cache.
Extraction Language OCaml.
Cd "Extract/out_cache".
Extraction "model.ml" Model.DriverAll_cache.run_line.
Cd "../..".
