(* Extract/Extract_c16.v -- extraction of the C16 line-protocol evaluator
   (same directives as Extract/Extract.v). *)
From Coq Require Import Extraction ExtrOcamlBasic ExtrOcamlString.
From Iso Require Import Model.DriverAll_c16.
Extraction Language OCaml.
Cd "Extract/out_c16".
Extraction "model.ml" Model.DriverAll_c16.run_line.
Cd "../..".
