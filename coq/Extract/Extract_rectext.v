(* Extract/Extract_rectext.v -- extraction of the line-protocol evaluator with
   the recurrence text/hash operations added (same directives as Extract.v). *)
From Coq Require Import Extraction ExtrOcamlBasic ExtrOcamlString.
From Iso Require Import Model.DriverAll_rectext.
Extraction Language OCaml.
Cd "Extract/out_rectext".
Extraction "model.ml" Model.DriverAll_rectext.run_line.
Cd "../..".
